"""Rule D — division safety: classification of every divisor on a set of paths (DESIGN §2b, A7)."""
from __future__ import annotations

import ast
from typing import Dict, List, Set

from ..vals import root_of
from .common import R, seg


def reachable_functions(r: R, entries: List[str], stop: Set[str] = frozenset()) -> List[str]:
    """functions reachable from the entries through resolved calls of the root contexts"""
    seen, todo = [], list(entries)
    while todo:
        q = todo.pop()
        if q in seen or q in stop:
            continue
        if q not in r.A.roots:
            continue
        seen.append(q)
        for c in r.A.roots[q].calls:
            for f in c.callees:
                if f.qual not in seen:
                    todo.append(f.qual)
    return sorted(seen)


def node_role_params(r: R, qual: str) -> Set[int]:
    """parameters the function treats as a node of the knot vector: compared with knotvector[0] / [-1]
    (assert / if), or handed to span() / mult() / valid()"""
    ctx = r.root(qual)
    fi = ctx.fi
    out = set()
    for n in ast.walk(fi.node):
        if isinstance(n, ast.Compare):
            sides = [n.left] + list(n.comparators)
            has_lim = any(isinstance(s, ast.Subscript) and isinstance(s.slice, (ast.Constant, ast.UnaryOp)) for s in sides)
            if has_lim:
                for s in sides:
                    if isinstance(s, ast.Name) and s.id in fi.params:
                        out.add(fi.params.index(s.id))
        if isinstance(n, ast.Call) and isinstance(n.func, ast.Attribute) and n.func.attr in ("span", "mult", "valid") and n.args:
            a = n.args[0]
            if isinstance(a, ast.Name) and a.id in fi.params:
                out.add(fi.params.index(a.id))
    return out


def division_sites(fi) -> List[tuple]:
    out = []
    for n in ast.walk(fi.node):
        if isinstance(n, ast.BinOp) and isinstance(n.op, (ast.Div, ast.FloorDiv, ast.Mod)):
            out.append((n, n.right, n.left))
        elif isinstance(n, ast.AugAssign) and isinstance(n.op, (ast.Div, ast.FloorDiv, ast.Mod)):
            out.append((n, n.value, n.target))
    return out


def classify(r: R, qual: str, site: tuple, noderole: Set[int]) -> tuple:
    ctx = r.root(qual)
    node, div, num = site
    v = ctx.val(div)
    if v is None:
        return ("unreached", "")
    syms = {c for c in (v.const or ()) if isinstance(c, tuple) and c and c[0] == "sym"}
    bare = {c[1] for c in syms if len(c) == 2}
    if any(t.startswith("inst:") for t in v.ty) and not (v.ty & {"number", "int", "float"}):
        return ("curve-operand", "operator dispatch, not a numeric division")
    if bare & noderole:
        p = ctx.fi.params[next(iter(bare & noderole))]
        return ("NODE", f"the divisor `{seg(div, 40)}` is the node parameter `{p}` itself (no subtraction): the interval contract allows it to be 0")
    if isinstance(div, ast.BinOp) and isinstance(div.op, ast.Sub):
        return ("difference", "")
    # a single knot value (no difference): 0 is a legal knot, and an interval may end at 0
    def knot_value(e) -> bool:
        return isinstance(e, ast.Subscript) and isinstance(e.value, ast.Name) and ("knot" in e.value.id.lower()) and not isinstance(e.slice, ast.Slice)

    reaching = div
    if isinstance(div, ast.Name):
        before = [s for s in ast.walk(ctx.fi.node) if isinstance(s, ast.Assign) and any(isinstance(t, ast.Name) and t.id == div.id for t in s.targets) and s.lineno < node.lineno and not any(x is node for x in ast.walk(s))]
        if before:
            reaching = max(before, key=lambda s: s.lineno).value
    if knot_value(reaching):
        return ("NODE", f"the divisor `{seg(div, 40)}` is the knot value `{seg(reaching, 40)}` itself (no difference of knots): a knot vector may contain 0 / end at 0")
    if isinstance(div, ast.Name):
        # a name assigned only from differences
        asg = [s for s in ast.walk(ctx.fi.node) if isinstance(s, ast.Assign) and any(isinstance(t, ast.Name) and t.id == div.id for t in s.targets)]
        if asg and all(isinstance(s.value, ast.BinOp) and isinstance(s.value.op, ast.Sub) for s in asg):
            return ("difference", "")
    if v.ty and v.ty <= {"int", "bool"}:
        return ("count", "")
    if isinstance(div, ast.Constant):
        return ("constant", "")
    if any("weights" in str(d) for d in v.all_dep()) or "weight" in seg(div).lower() or "denom" in seg(div).lower():
        return ("weight-function", "")
    if bare:
        return ("user-scalar", "")
    return ("unclassified", "")


def rule_d(r: R, chk, entries: List[str], stop: Set[str] = frozenset(), floor: int = 1):
    funcs = reachable_functions(r, entries, stop)
    nsites = 0
    hist: Dict[str, int] = {}
    for q in funcs:
        fi = r.prog.func(q)
        role = node_role_params(r, q)
        for site in division_sites(fi):
            nsites += 1
            cls, why = classify(r, q, site, role)
            hist[cls] = hist.get(cls, 0) + 1
            ok = cls != "NODE"
            ctx = r.root(q)
            chk.ob("D", f"{q}: divisor `{seg(site[1], 40)}` — {cls}", ok, loc=r.loc(ctx, site[0]),
                   detail="" if ok else f"{q}: `{seg(site[0], 60)}` at {r.loc(ctx, site[0])}: {why} — ZeroDivisionError for a node equal to 0 (reached from {', '.join(entries)})",
                   func=q, construct=f"division by node parameter: {seg(site[0], 50)}", nontrivial=cls not in ("unreached",))
    chk.floor("D", "division sites on the analysed paths", nsites, floor)
    chk.extra.setdefault("division_classes", {}).update(hist)
    return funcs
