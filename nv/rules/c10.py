"""C10 — quadrature rules are exact to their order; history independence of the memo tables."""
from __future__ import annotations

import ast
import math
from fractions import Fraction
from typing import Dict, List, Optional, Tuple

from .. import AnalysisError
from ..index import mangle
from .common import R, seg

NEED = ("generic", "exact")
NS = "heavy.NodeSample."
IA = "heavy.IntegratorArray."


# ------------------------------------------------------------------ memo tables
def memo_tables(r: R) -> Dict[str, Tuple[str, str, ast.Dict]]:
    """mangled name -> (class, mangled name, literal) for every class-level dict of NodeSample / IntegratorArray"""
    out = {}
    for cn in ("NodeSample", "IntegratorArray"):
        ci = r.prog.cls(cn)
        for name, val in ci.attrs.items():
            if isinstance(val, ast.Dict):
                out[f"{cn}.{name}"] = (cn, name, val)
    return out


def table_accesses(r: R, cn: str, mname: str):
    """(function, node, kind) for every syntactic access of the table: kind store / load"""
    out = []
    for fi in r.prog.all_functions():
        for n in ast.walk(fi.node):
            if isinstance(n, ast.Attribute) and mangle(fi.clsname, n.attr) == mname and (fi.clsname == cn or (isinstance(n.value, ast.Name) and n.value.id == cn) or n.attr == mname):
                out.append((fi, n))
    return out


def pure_memo(r: R, chk):
    tabs = memo_tables(r)
    chk.floor("PURE-MEMO", "class-level memo tables", len(tabs), 6)
    accessor_of = {}
    for key, (cn, mname, lit) in sorted(tabs.items()):
        acc = table_accesses(r, cn, mname)
        funcs = sorted({fi.qual for fi, _ in acc})
        ok1 = len(funcs) == 1
        chk.ob("PURE-MEMO", f"{key}: touched by exactly one accessor", ok1, loc=f"heavy.py:{acc[0][1].lineno}" if acc else "",
               detail="" if ok1 else f"the memo table {key} is read / written in {funcs}: a second writer or reader makes the answer of the accessor depend on what was requested earlier", func=key, construct=f"table {key} accessed from several functions")
        if not funcs:
            raise AnalysisError(f"memo table {key} has no accessor")
        for q in funcs:
            fi = r.prog.func(q)
            accessor_of[key] = q
            k = fi.params[0] if fi.params else None
            stores, loads_ok, ret_ok = [], True, False
            for n in ast.walk(fi.node):
                if isinstance(n, ast.Subscript) and isinstance(n.value, ast.Attribute) and mangle(fi.clsname, n.value.attr) == mname:
                    key_ok = isinstance(n.slice, ast.Name) and n.slice.id == k
                    if isinstance(n.ctx, ast.Store):
                        stores.append((n, key_ok))
                    elif not key_ok:
                        loads_ok = False
            # the key parameter is never rebound
            rebound = any(isinstance(x, ast.Name) and x.id == k and isinstance(x.ctx, ast.Store) for x in ast.walk(fi.node))
            ctxq = r.root(q)
            from .c08 import path_facts

            def stmt_node_of(sub):
                for nd in r.stmt_nodes(ctxq):
                    if nd.ast is not None and any(x is sub for x in ast.walk(nd.ast)):
                        return nd
                return None

            for n, key_ok in stores:
                nd = stmt_node_of(n)
                tab = seg(n.value)
                guarded = nd is not None and (f"{k} in {tab}", False) in path_facts(ctxq, nd.id)
                ok = key_ok and guarded and not rebound
                chk.ob("PURE-MEMO", f"{q}: `{seg(n, 40)}` writes only at its own key where `{k} not in table` holds", ok, loc=f"heavy.py:{n.lineno}",
                       detail="" if ok else f"{q}: the table write `{seg(n, 50)}` is not `T[{k}] = …` on a path that established `{k} not in T` (key rebound: {rebound}): entries can be overwritten or written for another size, so A(k) is no longer a function of k alone", func=q, construct=f"memo write {seg(n, 40)}")
            chk.ob("PURE-MEMO", f"{q}: every read of the table is at the accessor's own key", loads_ok and not rebound, loc=f"heavy.py:{fi.node.lineno}", detail="" if loads_ok and not rebound else f"{q}: reads the table at a key other than its parameter", func=q, construct="memo read at foreign key")
            # stored value depends on k alone (and on pure-memo callees)
            ctx = r.root(q)
            for nid, v in ctx.ret_sites.items():
                deps = {d for d in v.all_dep() if not (d[0] == "G")}
                foreign = [d for d in deps if d != ("P", 0)]
                okd = not foreign
                chk.ob("PURE-MEMO", f"{q}: the returned rule depends on `{k}` only", okd, loc=r.loc(ctx, ctx.cfg.nodes[nid].ast), detail="" if okd else f"{q}: the result depends on {r.fmt_deps(fi, foreign)} besides `{k}`", func=q, construct="memo value depends on more than its key")
                rv = ctx.cfg.nodes[nid].ast.value
                ret_is_entry = isinstance(rv, ast.Subscript) and isinstance(rv.value, ast.Attribute) and mangle(fi.clsname, rv.value.attr) == mname and isinstance(rv.slice, ast.Name) and rv.slice.id == k
                if not ret_is_entry and isinstance(rv, ast.Name):
                    # `T[k] = v; return v`: the returned local is what was just stored at the accessor's own key
                    for sn, key_ok2 in stores:
                        snd = stmt_node_of(sn)
                        if key_ok2 and snd is not None and isinstance(snd.ast, ast.Assign) and isinstance(snd.ast.value, ast.Name) and snd.ast.value.id == rv.id and ctx.cfg.dominates(snd.id, nid):
                            between = [x for x in ast.walk(fi.node) if isinstance(x, ast.Name) and x.id == rv.id and isinstance(x.ctx, ast.Store) and getattr(x, "lineno", 0) > snd.ast.lineno]
                            if not between:
                                ret_is_entry = True
                chk.ob("PURE-MEMO", f"{q}: returns `T[{k}]`", ret_is_entry, loc=r.loc(ctx, ctx.cfg.nodes[nid].ast), detail="" if ret_is_entry else f"{q}: does not return the table entry of its own key: `{seg(rv, 40)}`", func=q, construct="accessor does not return its entry")
                imm = v.ty and v.ty <= {"tuple"}
                chk.ob("PURE-MEMO", f"{q}: stored values are immutable tuples", bool(imm), loc=r.loc(ctx, ctx.cfg.nodes[nid].ast), detail="" if imm else f"{q}: the memoised value may be {sorted(v.ty)} — a caller could change a cached rule in place", func=q, construct="mutable memo value")
    return tabs, accessor_of


# ------------------------------------------------------------------ pairing
def authoritative_pairs(r: R) -> Dict[str, str]:
    """weights accessor -> nodes function it is built for (read off the accessors)"""
    pairs = {}
    ia = r.prog.cls("IntegratorArray")
    for name, fi in ia.methods.items():
        ctx = r.A.roots.get(fi.qual)
        if ctx is None:
            continue
        ns = sorted({f.qual for c in ctx.calls for f in c.callees if f.qual.startswith(NS)})
        if len(ns) == 1:
            pairs[fi.qual] = ns[0]
        elif not ns and any("leggauss" in seg(c) for c in ast.walk(fi.node) if isinstance(c, ast.Call)):
            # shares np.polynomial.legendre.leggauss with the node function of the same name
            cand = [g.qual for nm_, g in r.prog.cls("NodeSample").methods.items() if not nm_.startswith("_") and any("leggauss" in seg(c) for c in ast.walk(g.node) if isinstance(c, ast.Call))]
            if len(cand) == 1:
                pairs[fi.qual] = cand[0]
    return pairs


def funcrefs(ctx, expr) -> List[str]:
    v = ctx.val(expr)
    if v is None:
        return []
    return sorted(t.split(":", 1)[1] for t in v.ty if t.startswith("func:"))


def paired_registry(ctx, fi):
    """a registry that holds nodes function and weights function of a method side by side:
    {key: (NodeSample.f, IntegratorArray.g)} -> (assignment, {key: nodes ref}, {key: weights ref}); None when there is none"""
    for s in ast.walk(fi.node):
        if not (isinstance(s, ast.Assign) and isinstance(s.value, ast.Dict) and isinstance(s.targets[0], ast.Name) and s.value.keys):
            continue
        nrefs, wrefs = {}, {}
        for k, v in zip(s.value.keys, s.value.values):
            if not (isinstance(k, ast.Constant) and isinstance(v, ast.Tuple) and len(v.elts) == 2):
                break
            frs = [funcrefs(ctx, e) for e in v.elts]
            if not all(len(f) == 1 for f in frs):
                break
            a, b = frs[0][0], frs[1][0]
            if a.startswith(IA) and b.startswith(NS):
                a, b = b, a
            if not (a.startswith(NS) and b.startswith(IA)):
                break
            nrefs[k.value], wrefs[k.value] = a, b
        else:
            return s, nrefs, wrefs
    return None


def node_registry(ctx, fi):
    """{method name: NodeSample function} of a consumer, whichever way its registry is written"""
    pr = paired_registry(ctx, fi)
    if pr is not None:
        return pr[0].targets[0].id, pr[1]
    for s in ast.walk(fi.node):
        if isinstance(s, ast.Assign) and isinstance(s.value, ast.Dict) and isinstance(s.targets[0], ast.Name):
            refs = {}
            for k, v in zip(s.value.keys, s.value.values):
                if isinstance(k, ast.Constant) and isinstance(k.value, str):
                    fr = funcrefs(ctx, v)
                    if len(fr) == 1 and fr[0].startswith(NS):
                        refs[k.value] = fr[0]
            if refs and len(refs) == len(s.value.keys):
                return s.targets[0].id, refs
    return None


def pairing(r: R, chk, consumers: List[str], floor: int):
    auth = authoritative_pairs(r)
    chk.floor("PAIR", "authoritative nodes/weights pairs read off the accessors", len(auth), 4)
    chk.extra["authoritative_pairs"] = auth
    n = 0
    for q in consumers:
        ctx = r.root(q)
        fi = ctx.fi
        # (a) registries: dict literals of function references
        dicts = {}
        for s in ast.walk(fi.node):
            if isinstance(s, ast.Assign) and isinstance(s.value, ast.Dict) and isinstance(s.targets[0], ast.Name):
                refs = {}
                for k, v in zip(s.value.keys, s.value.values):
                    if isinstance(k, ast.Constant):
                        fr = funcrefs(ctx, v)
                        if len(fr) == 1:
                            refs[k.value] = fr[0]
                if refs:
                    dicts[s.targets[0].id] = (s, refs)
        pr = paired_registry(ctx, fi)
        if pr is not None:
            ps_, nrefs, wrefs = pr
            pname = ps_.targets[0].id
            n += 1
            chk.ob("PAIR", f"{q}: the registry `{pname}` holds nodes and weights of a method side by side", True, loc=r.loc(ctx, ps_))
            for key in sorted(nrefs):
                okp = auth.get(wrefs[key]) == nrefs[key]
                n += 1
                chk.ob("PAIR", f"{q}: method {key!r}: {wrefs[key].split('.')[-1]} weights with {nrefs[key].split('.')[-1]} nodes", okp, loc=r.loc(ctx, ps_),
                       detail="" if okp else f"{q}: for {key!r} the weights of {wrefs[key]} (built for {auth.get(wrefs[key])}) are applied at the nodes of {nrefs[key]}: the quadrature is wrong for every non-trivial integrand", func=q, construct=f"registry pairs {key} wrongly")
            # the two functions taken out of one entry are called with the same size
            unpack = [a for a in ast.walk(fi.node) if isinstance(a, ast.Assign) and isinstance(a.value, ast.Subscript) and isinstance(a.value.value, ast.Name) and a.value.value.id == pname and isinstance(a.targets[0], ast.Tuple) and len(a.targets[0].elts) == 2 and all(isinstance(e, ast.Name) for e in a.targets[0].elts)]
            for a in unpack:
                f1, f2 = (e.id for e in a.targets[0].elts)
                c1 = [c for c in ast.walk(fi.node) if isinstance(c, ast.Call) and isinstance(c.func, ast.Name) and c.func.id == f1]
                c2 = [c for c in ast.walk(fi.node) if isinstance(c, ast.Call) and isinstance(c.func, ast.Name) and c.func.id == f2]
                if len(c1) == 1 and len(c2) == 1:
                    oks = [seg(x) for x in c1[0].args] == [seg(x) for x in c2[0].args]
                    n += 1
                    chk.ob("PAIR", f"{q}: nodes and weights are requested with the same key and the same size", oks, loc=r.loc(ctx, c2[0]), detail="" if oks else f"{q}: `{seg(c1[0], 40)}` vs `{seg(c2[0], 40)}`: a shorter weight tuple is silently truncated by zip", func=q, construct="size / key mismatch between nodes and weights")
        nd = {k: v for k, v in dicts.items() if all(x.startswith(NS) for x in v[1].values())}
        wd = {k: v for k, v in dicts.items() if all(x.startswith(IA) for x in v[1].values())}
        if nd and wd:
            (nname, (ns_, nrefs)), (wname, (ws_, wrefs)) = sorted(nd.items())[0], sorted(wd.items())[0]
            ok = set(nrefs) == set(wrefs)
            chk.ob("PAIR", f"{q}: registries `{nname}` and `{wname}` have the same keys", ok, loc=r.loc(ctx, ns_), detail="" if ok else f"{q}: key sets differ: {sorted(set(nrefs) ^ set(wrefs))}", func=q, construct="registry key mismatch")
            n += 1
            for key in sorted(set(nrefs) & set(wrefs)):
                okp = auth.get(wrefs[key]) == nrefs[key]
                n += 1
                chk.ob("PAIR", f"{q}: method {key!r}: {wrefs[key].split('.')[-1]} weights with {nrefs[key].split('.')[-1]} nodes", okp, loc=r.loc(ctx, ns_),
                       detail="" if okp else f"{q}: for {key!r} the weights of {wrefs[key]} (built for {auth.get(wrefs[key])}) are applied at the nodes of {nrefs[key]}: the quadrature is wrong for every non-trivial integrand", func=q, construct=f"registry pairs {key} wrongly")
            # same size argument for both calls through the registries
            look = {}
            for s in ast.walk(fi.node):
                if isinstance(s, ast.Assign) and isinstance(s.value, ast.Subscript) and isinstance(s.value.value, ast.Name) and s.value.value.id in (nname, wname) and isinstance(s.targets[0], ast.Name):
                    look[s.targets[0].id] = (s.value.value.id, seg(s.value.slice))
            calls = {}
            for c in ast.walk(fi.node):
                if isinstance(c, ast.Call) and isinstance(c.func, ast.Name) and c.func.id in look:
                    calls[look[c.func.id][0]] = (c, look[c.func.id][1])
            if nname in calls and wname in calls:
                (c1, k1), (c2, k2) = calls[nname], calls[wname]
                oks = k1 == k2 and [seg(a) for a in c1.args] == [seg(a) for a in c2.args]
                n += 1
                chk.ob("PAIR", f"{q}: nodes and weights are requested with the same key and the same size", oks, loc=r.loc(ctx, c2), detail="" if oks else f"{q}: `{seg(c1, 40)}` vs `{seg(c2, 40)}` (keys {k1} / {k2}): a shorter weight tuple is silently truncated by zip", func=q, construct="size / key mismatch between nodes and weights")
        # (b) direct calls in the same branch
        par = {}
        for p in ast.walk(fi.node):
            for ch in ast.iter_child_nodes(p):
                par[ch] = p
        groups: Dict[int, List[ast.Call]] = {}
        for c in ast.walk(fi.node):
            if isinstance(c, ast.Call):
                fr = funcrefs(ctx, c.func)
                if len(fr) == 1 and (fr[0].startswith(NS) or fr[0].startswith(IA)) and isinstance(c.func, ast.Attribute):
                    # innermost enclosing statement list = (parent If/For/..., which branch)
                    x = c
                    while x in par and not isinstance(par[x], (ast.If, ast.For, ast.While, ast.FunctionDef)):
                        x = par[x]
                    p = par.get(x)
                    branch = 0
                    if isinstance(p, ast.If) and any(x is s for s in p.orelse):
                        branch = 1
                    groups.setdefault((id(p), branch), []).append((c, fr[0]))
        for g in groups.values():
            nodes_c = [(c, f) for c, f in g if f.startswith(NS)]
            weights_c = [(c, f) for c, f in g if f.startswith(IA)]
            if len(nodes_c) == 1 and len(weights_c) == 1:
                (c1, f1), (c2, f2) = nodes_c[0], weights_c[0]
                okp = auth.get(f2) == f1
                oks = [seg(a) for a in c1.args[:1]] == [seg(a) for a in c2.args[:1]]
                n += 2
                chk.ob("PAIR", f"{q}: `{seg(c2, 40)}` weights with `{seg(c1, 40)}` nodes", okp, loc=r.loc(ctx, c2), detail="" if okp else f"{q}: the weights of {f2} (built for {auth.get(f2)}) are used with the nodes of {f1} in the same branch: a wrongly weighted inner product (reproduction tests cannot see it: for C in S the same wrong quadrature cancels)", func=q, construct=f"{f2.split('.')[-1]} paired with {f1.split('.')[-1]}")
                chk.ob("PAIR", f"{q}: `{seg(c1, 40)}` and `{seg(c2, 40)}` use the same size", oks, loc=r.loc(ctx, c2), detail="" if oks else f"{q}: nodes for `{seg(c1.args[0], 20)}` but weights for `{seg(c2.args[0], 20)}` points: zip/enumerate silently drop the surplus", func=q, construct="nodes / weights size mismatch")
    chk.floor("PAIR", "pairing instances in the consumers", n, floor)


# ------------------------------------------------------------------ default rule is open
# node families that contain the ends 0 and 1 of the reference interval (confirmed by reading: i/(npts-1) for i in range(npts))
CLOSED_NODES = {NS + "closed_linspace": "i/(npts-1), i = 0..npts-1 contains 0 and 1"}


def default_open(r: R, chk, consumers: List[str]):
    """the rule chosen when the caller gives no method samples no span end: the integrand is evaluated span by span through
    the right-continuous curve.eval, so a node at the right end of a span reads the NEXT span's value — wrong for a degree-0
    curve and for the speed of a polyline (Integrate.lenght), whatever the weights."""
    from .c08 import path_facts

    for q in CLOSED_NODES:
        fi = r.prog.func(q)
        alias = {a.targets[0].id for a in ast.walk(fi.node) if isinstance(a, ast.Assign) and len(a.targets) == 1 and isinstance(a.targets[0], ast.Name) and seg(a.value).replace(" ", "") in ("(npts-1)", "npts-1")}
        if not any(isinstance(b, ast.BinOp) and isinstance(b.op, ast.Div) and (seg(b.right).replace(" ", "") in ("(npts-1)", "npts-1") or (isinstance(b.right, ast.Name) and b.right.id in alias)) for b in ast.walk(fi.node)):
            raise AnalysisError(f"{q} no longer divides by npts - 1: the closed-node table of the checker is stale")
    n = 0
    nreq = 0
    for q in consumers:
        ctx = r.root(q)
        fi = ctx.fi
        if _evaluates_pieces(r, ctx):
            # every span evaluates its own closed piece (PIECEWISE-EVAL): a node at a span end is read on the right piece,
            # so the default rule may be closed or open
            chk.note(f"DEFAULT-OPEN: {q} evaluates the piece of each span — no constraint on its default rule")
            continue
        nreq += 1
        nr = node_registry(ctx, fi)
        reg = dict(nr[1]) if nr is not None else {}
        for node in r.stmt_nodes(ctx):
            s = node.ast
            if not (isinstance(s, ast.Assign) and len(s.targets) == 1 and isinstance(s.targets[0], ast.Name) and s.targets[0].id == "method" and isinstance(s.value, ast.Constant) and isinstance(s.value.value, str)):
                continue
            if ("method is None", True) not in path_facts(ctx, node.id):
                continue
            n += 1
            nf = reg.get(s.value.value)
            ok = nf is not None and nf not in CLOSED_NODES
            chk.ob("DEFAULT-OPEN", f"{q}: the default `{s.value.value}` samples no span end", ok, loc=r.loc(ctx, s),
                   detail="" if ok else f"{q}: without an explicit method the rule {s.value.value!r} is used, whose nodes ({nf}: {CLOSED_NODES.get(nf, 'not in the registry')}) include the span ends: the right end of every span is evaluated on the next span (right-continuity), so the integral of a degree-0 curve and the length of a polyline with unequal speeds are wrong",
                   func=q, construct=f"default rule {s.value.value} samples span ends")
    chk.floor("DEFAULT-OPEN", "default rule selections", n, 2 * nreq)


def _evaluates_pieces(r: R, ctx) -> bool:
    """all curve evaluations inside the function's loops have a loop-local receiver (a piece from split()), and there is one"""
    fi = ctx.fi
    seen = False
    for lp in [x for x in ast.walk(fi.node) if isinstance(x, ast.For)]:
        inner = {id(x) for st in lp.body for x in ast.walk(st)}
        local = {x.id for x in ast.walk(lp.target) if isinstance(x, ast.Name)}
        for cr in ctx.calls:
            if id(cr.node) in inner and any(f.qual in ("curves.Curve.eval", "curves.BaseCurve.__call__") for f in cr.callees):
                node = cr.node
                recv = node.func.value if isinstance(node, ast.Call) and isinstance(node.func, ast.Attribute) else None
                if not (isinstance(recv, ast.Name) and recv.id in local):
                    return False
                seen = True
    return seen


def open_nodes(r: R, chk, qual: str, rule="OPEN-NODES"):
    """a function that integrates span by span by evaluating right-continuous spline functions at mapped reference nodes uses
    no node family that contains the span ends (same reason as DEFAULT-OPEN: the right end of a span is evaluated on the next
    span, which is wrong for every basis function that is discontinuous there — degree 0, interior knots of multiplicity p+1)"""
    ctx = r.root(qual)
    n = 0
    for c in ast.walk(ctx.fi.node):
        if isinstance(c, ast.Call):
            fr = [f for f in funcrefs(ctx, c.func) if f.startswith(NS)]
            if not fr:
                continue
            n += 1
            bad = [f for f in fr if f in CLOSED_NODES]
            chk.ob(rule, f"{qual}: `{seg(c, 40)}` samples no span end", not bad, loc=r.loc(ctx, c),
                   detail="" if not bad else f"{qual}: `{seg(c, 50)}` ({bad[0]}: {CLOSED_NODES[bad[0]]}) puts quadrature nodes on the span ends; the basis functions are evaluated right-continuously, so the right end of every span reads the next span: for a source or target with a discontinuity at a knot (degree 0, multiplicity p+1) the Gram matrices are wrong — the fit of the step [0,1] on [0,1,2] into a constant gives 7/12 instead of 1/2",
                   func=qual, construct="closed quadrature nodes in a span-by-span integration")
    chk.floor(rule, f"reference-node generators in {qual}", n, 1)


# ------------------------------------------------------------------ literal seeds
def fold(e: ast.expr):
    if isinstance(e, ast.Constant):
        return e.value
    if isinstance(e, ast.Call) and isinstance(e.func, ast.Name) and e.func.id == "Fraction":
        return Fraction(*[fold(a) for a in e.args])
    if isinstance(e, ast.Tuple):
        return tuple(fold(x) for x in e.elts)
    if isinstance(e, ast.UnaryOp) and isinstance(e.op, ast.USub):
        return -fold(e.operand)
    if isinstance(e, ast.BinOp) and isinstance(e.op, ast.Div):
        return Fraction(fold(e.left)) / Fraction(fold(e.right))
    raise ValueError(seg(e))


def closed_nodes(family: str, n: int):
    if family == "closed":
        return [Fraction(i, n - 1) for i in range(n)], True, n
    if family == "open":
        return [Fraction(2 * i + 1, 2 * n) for i in range(n)], True, n
    if family == "cheby":
        return [math.sin(0.5 * math.pi * (2 * i + 1) / (2 * n)) ** 2 for i in range(n)], False, n
    if family == "gauss":
        if n == 1:
            return [0.5], False, 2
        if n == 2:
            d = 1 / (2 * math.sqrt(3))
            return [0.5 - d, 0.5 + d], False, 4
        if n == 3:
            d = math.sqrt(3 / 5) / 2
            return [0.5 - d, 0.5, 0.5 + d], False, 6
    return None


def seeds(r: R, chk, tabs):
    fam = {"IntegratorArray._IntegratorArray__closed_newton": "closed", "IntegratorArray._IntegratorArray__open_newton": "open", "IntegratorArray._IntegratorArray__cheby": "cheby", "IntegratorArray._IntegratorArray__gauss": "gauss"}
    n_seed = 0
    for key, (cn, mname, lit) in sorted(tabs.items()):
        for k, v in zip(lit.keys, lit.values):
            try:
                n, w = fold(k), fold(v)
            except Exception as e:  # a non-literal seed cannot be folded: not a violation, but nothing is decided
                chk.note(f"seed {key}[{seg(k)}] is not a literal: {e}")
                continue
            loc = f"heavy.py:{k.lineno}"
            n_seed += 1
            if key in fam:
                spec = closed_nodes(fam[key], n)
                okn = isinstance(w, tuple) and len(w) == n
                chk.ob("SEED", f"{key}[{n}] has {n} weights", okn, loc=loc, detail="" if okn else f"{key}[{n}] has {len(w) if isinstance(w, tuple) else '?'} weights for {n} nodes", func=key, construct=f"seed {n}: wrong length")
                if not okn or spec is None:
                    continue
                x, exact, order = spec
                tol = 0 if exact else 1e-12
                s_ok = abs(sum(w) - 1) <= tol
                sym = all(abs(w[i] - w[n - 1 - i]) <= tol for i in range(n))
                mom = all(abs(sum(wi * (xi**kk) for wi, xi in zip(w, x)) - Fraction(1, kk + 1)) <= (tol if not exact else 0) for kk in range(order)) if exact else all(abs(sum(float(wi) * (xi**kk) for wi, xi in zip(w, x)) - 1 / (kk + 1)) <= 1e-12 for kk in range(order))
                for nm, ok in (("sum to 1", s_ok), ("are symmetric", sym), (f"satisfy the moment equations up to degree {order - 1}", mom)):
                    chk.ob("SEED", f"{key}[{n}]: the literal weights {nm}", ok, loc=loc, detail="" if ok else f"{key}[{n}] = {w}: the literal weights do not {nm} for the {fam[key]} nodes — the rule is not exact to its order", func=key, construct=f"seed {n}: {nm}")
            else:
                # node tables: one node per size, inside [0, 1]
                okn = isinstance(w, tuple) and len(w) == n and all(0 <= float(x) <= 1 for x in w) and list(w) == sorted(w)
                ref = None
                if "cheby" in key:
                    ref = closed_nodes("cheby", n)[0]
                elif "gauss" in key:
                    sp = closed_nodes("gauss", n)
                    ref = sp[0] if sp else None
                if ref is not None and okn:
                    okn = all(abs(float(a) - b) <= 1e-12 for a, b in zip(w, ref))
                chk.ob("SEED", f"{key}[{n}]: literal nodes are the rule's nodes in [0, 1], increasing", okn, loc=loc, detail="" if okn else f"{key}[{n}] = {w} are not the {n} nodes of the rule", func=key, construct=f"node seed {n}")
    chk.floor("SEED", "literal seeds folded from the class tables", n_seed, 14)


def run(m, chk):
    r = R(m, chk)
    chk.explanation = (
        "Static discharge of structural clauses of C10: each of the six module-level memo tables is pure-memo (one accessor, written only at the accessor's own key under `if k not in T`, value depends on k alone, "
        "immutable, nobody else reads or writes) — hence A(k) does not depend on earlier requests (history independence as a static induction); every consumer pairs node and weight families the way the accessors "
        "define them and asks both for the same size (PAIR); the literal seeds satisfy length / sum / symmetry / moment equations against closed forms coded in the checker (SEED); Integrate.* do not modify the curve "
        "and depend on all their inputs. Exactness order of the *computed* rules, the closed-form spline integral and polyline length are not decided."
    )
    chk.decides = ["E8 (with exact knots, points and the default rule no float introduced by the library reaches the value of Integrate.scalar / Integrate.function: the default for Fraction and int knots is an exact rule)", "UFUNC-FLOAT (float-only numpy functions are applied to converted values: exact data do not raise TypeError)", "PRODUCT-SAME-NODES (curve and weight function are sampled at the same mapped nodes in Integrate.scalar)", "TRUNC-FLOAT (no integer obtained by truncating a float quotient is used on the path: the quadrature tables are built with exact binomials)", "D-VALUE (the integrators never divide by a value of the curve)", "END-EXACT (closed reference nodes are mapped onto a span with an expression that is exact at both ends)", "PURE-MEMO", "PAIR (family and size)", "SEED", "PURE", "DEP-MAY", 'MEMO-KEY (no value-keyed memoisation)', 'DEFAULT-OPEN (the default rule has no node at a span end)', 'JACOBIAN (span sums are multiplied by the span length)', 'PIECEWISE-EVAL (with a closed rule on offer, each span evaluates its own piece)', 'PRECOND-LB (sizes the library chooses satisfy the asserted minimum of every rule they can reach)']
    chk.not_decided = ["exactness order of the computed rules for every n (Linalg.invert)", "Integrate.scalar equals the closed form", "polyline length"]
    chk.assume("numpy.polynomial.legendre.leggauss is deterministic")
    tabs, acc = pure_memo(r, chk)
    # "exactly for rational data with the default rule": with exact input no float made by the library reaches the result
    from .c16 import e8_sinks

    nsink = e8_sinks(chk, m.exact(), ["calculus.Integrate.scalar", "calculus.Integrate.function"])
    chk.floor("E8", "sinks of Integrate.scalar / Integrate.function under exact input", nsink, 2)
    from .extra import memo_key

    memo_key(r, chk)
    pairing(r, chk, ["calculus.Integrate.scalar", "calculus.Integrate.density", "calculus.Integrate.function", "heavy.LeastSquare.func2func"], floor=20)
    seeds(r, chk, tabs)
    default_open(r, chk, ["calculus.Integrate.scalar", "calculus.Integrate.density", "calculus.Integrate.function"])
    from .extra import jacobian, piecewise_eval

    jacobian(r, chk, ["calculus.Integrate.scalar", "calculus.Integrate.density", "calculus.Integrate.function"])
    piecewise_eval(r, chk, ["calculus.Integrate.scalar", "calculus.Integrate.density"])
    from .extra import precond_lb, size_default

    precond_lb(r, chk, ["heavy.LeastSquare.func2func"])
    nsz = size_default(r, chk, ["calculus.Integrate.scalar", "calculus.Integrate.density", "calculus.Integrate.function"], exact=["calculus.Integrate.scalar"])
    chk.floor("SIZE-DEFAULT", "(integrator, method) pairs whose default size was folded", nsz, 12)
    for q, params in (("calculus.Integrate.scalar", ["curve"]), ("calculus.Integrate.density", ["curve"]), ("calculus.Integrate.lenght", ["curve"]), ("calculus.Integrate.function", ["knotvector"])):
        r.pure("PURE", q, params)
    for q, need in (("calculus.Integrate.scalar", ["curve.knotvector", "curve.ctrlpoints", "curve.weights", "function", "method", "nnodes"]), ("calculus.Integrate.density", ["curve.knotvector", "curve.ctrlpoints", "curve.weights", "function", "method", "nnodes"]), ("calculus.Integrate.function", ["knotvector", "function", "method", "nnodes"])):
        ctx = r.root(q)
        for nid, v in sorted(ctx.ret_sites.items()):
            have = r.deep_dep(ctx, v, heap=ctx.ret_states[nid].heap)
            miss = [w for w in r.srcs(ctx.fi, need) if not R.dep_has(have, w)]
            chk.ob("DEP-MAY", f"{q}: the integral depends on {', '.join(need)}", not miss, loc=r.loc(ctx, ctx.cfg.nodes[nid].ast), detail="" if not miss else f"{q}: the result does not depend on {r.fmt_deps(ctx.fi, miss)}", func=q, construct=f"ignores {r.fmt_deps(ctx.fi, miss)}")
    from .extra import trunc_float

    trunc_float(r, chk, ["calculus.Integrate.scalar", "calculus.Integrate.function", "calculus.Integrate.density", "heavy.IntegratorArray.closed_newton_cotes", "heavy.IntegratorArray.open_newton_cotes", "heavy.IntegratorArray.chebyshev", "heavy.IntegratorArray.gauss_legendre"])
    from .extra import product_same_nodes

    product_same_nodes(r, chk, "calculus.Integrate.scalar")
    from .extra import ufunc_float

    ufunc_float(r, chk, ["calculus.Integrate.density"])
    from .extra import end_exact

    nee = end_exact(r, chk, ["calculus.Integrate.scalar", "calculus.Integrate.density", "calculus.Integrate.function"])
    chk.floor("END-EXACT", "maps of reference nodes onto an interval examined", nee, 3)
    from .extra import div_by_value

    div_by_value(r, chk, ["calculus.Integrate.scalar", "calculus.Integrate.density", "calculus.Integrate.lenght"])
