"""C08 — curve arithmetic is pointwise."""
from __future__ import annotations

import ast

from .. import AnalysisError
from .common import CURVE_FIELDS, R, limits_guards, seg

NEED = ("generic",)
B = "curves.BaseCurve."
CURVE_CURVE = ["__add__", "__mul__", "__matmul__", "__truediv__"]
DERIVED = ["__sub__", "__radd__", "__rsub__"]
SCALAR_ONLY = ["__rmul__", "__rmatmul__", "__rtruediv__", "__neg__"]
ALL = CURVE_CURVE + DERIVED + SCALAR_ONLY


def path_facts(ctx, nid):
    """(text, polarity) of the conjuncts of the tests whose edge dominates node nid"""
    facts = set()
    cfg = ctx.cfg
    from .common import local_aliases, unalias

    al = local_aliases(ctx.fi.node)
    for t in cfg.nodes:
        if t.kind != "test":
            continue
        for lab, pol in (("t", True), ("f", False)):
            if cfg.edge_dominates(t.id, lab, nid) and nid in cfg.live_nodes() and any(l == lab for _, l in t.succ):
                c = unalias(t.ast, al)
                parts = [c]
                if isinstance(c, ast.BoolOp) and ((isinstance(c.op, ast.And) and pol) or (isinstance(c.op, ast.Or) and not pol)):
                    parts = c.values
                elif isinstance(c, ast.BoolOp):
                    parts = []
                for p in parts:
                    pp, q = p, pol
                    while isinstance(pp, ast.UnaryOp) and isinstance(pp.op, ast.Not):
                        pp, q = pp.operand, not q
                    facts.add(norm_fact(pp, q))
    return facts


def norm_fact(pp: ast.expr, q: bool):
    """normal form of a fact: `x is not None` (q) == `x is None` (not q); `a != b` (q) == `a == b` (not q)"""
    if isinstance(pp, ast.Compare) and len(pp.ops) == 1:
        if isinstance(pp.ops[0], ast.IsNot):
            return (seg(ast.Compare(left=pp.left, ops=[ast.Is()], comparators=pp.comparators)), not q)
        if isinstance(pp.ops[0], ast.NotEq):
            return (seg(ast.Compare(left=pp.left, ops=[ast.Eq()], comparators=pp.comparators)), not q)
        if isinstance(pp.ops[0], ast.NotIn):
            return (seg(ast.Compare(left=pp.left, ops=[ast.In()], comparators=pp.comparators)), not q)
    return (seg(pp), q)


def scalar_arm(ctx, other: str):
    """(test node, label) of the arm taken when `other` is not a curve"""
    for t in ctx.cfg.nodes:
        if t.kind == "test":
            c = t.ast
            neg = False
            while isinstance(c, ast.UnaryOp) and isinstance(c.op, ast.Not):
                c, neg = c.operand, not neg
            if isinstance(c, ast.Call) and isinstance(c.func, ast.Name) and c.func.id == "isinstance" and isinstance(c.args[0], ast.Name) and c.args[0].id == other:
                return t, ("t" if neg else "f")
    return None


def run(m, chk):
    r = R(m, chk)
    chk.explanation = (
        "Static discharge of structural clauses of C08: operands of the 11 arithmetic dunders are not modified and results are fresh (PURE / FRESH); the four "
        "curve x curve operators have the limits comparison raising ValueError dominating the curve-curve computation (GATE); derived operators only delegate; "
        "on every return site the returned curve depends on both operands, and on the weights of an operand unless the path established `weights is None` (DEP-MAY). "
        "Pointwise equality of the values and the correctness of the combined knot vector are not decided."
    )
    chk.decides = ["PURE", "FRESH", "GATE(limits ⇒ ValueError)", "DELEGATE", "DEP-MAY per return site", 'POLY-ONLY (polynomial helpers only under weights is None)', 'INTERVAL', 'REFLECTED (x - A, M @ A, x / A are not A - x, A @ M, A / x)', 'ZIP-ALIGN (parallel lists are zipped with the same slice)']
    chk.not_decided = ["(A op B)(u) = A(u) op B(u) as values", "correctness of the combined knot vector (fails for different degrees with interior knots — consequence of the | defect, DESIGN §5)"]
    for name in ALL:
        q = B + name
        fi = r.prog.func(q)
        r.pure("PURE", q, fi.params[:2])
        r.fresh_result("FRESH", q)
    chk.floor("PURE", "arithmetic dunders", len(ALL), 11)
    # 2. limits gate
    for name in CURVE_CURVE:
        q = B + name
        ctx = r.root(q)
        fi = ctx.fi
        other = fi.params[1]
        sa = scalar_arm(ctx, other)
        if sa is None:
            raise AnalysisError(f"{q}: the isinstance dispatch on `{other}` was not found")
        kv = CURVE_FIELDS[0]
        guards = limits_guards(r, ctx, {("PF", 0, kv)}, {("PF", 1, kv), ("P", 1)})
        rets = [n for n in r.stmt_nodes(ctx) if isinstance(n.ast, ast.Return)]
        n_cc = 0
        for n in rets:
            if ctx.cfg.edge_dominates(sa[0].id, sa[1], n.id):
                continue  # scalar arm
            n_cc += 1
            ok = any(r.guard_dominates(ctx, g, n.id) for g in guards)
            chk.ob("GATE-LIMITS", f"{q}: curve-curve result `{seg(n.ast, 40)}` only after the limits comparison ⇒ ValueError", ok, loc=r.loc(ctx, n.ast),
                   detail="" if ok else f"{q}: the curve-curve result at {r.loc(ctx, n.ast)} is computed without comparing the two parameter intervals: operands on different intervals do not raise ValueError", func=q, construct="curve-curve result without limits guard")
        chk.floor("GATE-LIMITS", f"curve-curve return sites of {q}", n_cc, 2)
    # derived operators only delegate
    for name in DERIVED:
        q = B + name
        fi = r.prog.func(q)
        body = [s for s in fi.node.body if not (isinstance(s, ast.Expr) and isinstance(s.value, ast.Constant))]
        ok = len(body) == 1 and isinstance(body[0], ast.Return) and any(c.callees for c in r.root(q).calls)
        chk.ob("DELEGATE", f"{q}: a single `return` delegating to the base operators", ok, loc=f"curves.py:{fi.node.lineno}", detail="" if ok else f"{q}: no longer a pure delegation", func=q, construct="not a delegation")
    from .extra import interval_from_operand, poly_only, reflected_ops, zip_align

    reflected_ops(r, chk)
    zip_align(r, chk, [B + n_ for n_ in CURVE_CURVE])
    poly_only(r, chk, [B + n_ for n_ in CURVE_CURVE], floor=8)
    interval_from_operand(r, chk, [B + n_ for n_ in CURVE_CURVE + ["__rtruediv__"]], floor=4)
    # 3. operand dependence per return site
    nsites = 0
    for name in ALL:
        q = B + name
        ctx = r.root(q)
        fi = ctx.fi
        binary = len(fi.params) > 1
        other = fi.params[1] if binary else None
        for nid, v in sorted(ctx.ret_sites.items()):
            node = ctx.cfg.nodes[nid]
            have = r.deep_dep(ctx, v, heap=ctx.ret_states[nid].heap)
            facts = path_facts(ctx, nid)
            need = ["self.ctrlpoints", "self.knotvector"]
            if ("self.weights is None", True) not in facts:
                need.append("self.weights")
            want = set(r.srcs(fi, need))
            missing = [w for w in want if not R.dep_has(have, w)]
            if binary and not R.dep_has(have, ("P", 1)):
                missing.append(("P", 1))
            if binary and name in CURVE_CURVE:
                sa = scalar_arm(ctx, other)
                if sa is not None and not ctx.cfg.edge_dominates(sa[0].id, sa[1], nid):
                    need2 = [f"{other}.ctrlpoints", f"{other}.knotvector"]
                    if (f"{other}.weights is None", True) not in facts:
                        need2.append(f"{other}.weights")
                    missing += [w for w in r.srcs(fi, need2) if not R.dep_has(have, w)]
            nsites += 1
            ok = not missing
            chk.ob("DEP-MAY", f"{q}: `{seg(node.ast, 50)}` depends on both operands", ok, loc=r.loc(ctx, node.ast),
                   detail="" if ok else f"{q}: the value returned at {r.loc(ctx, node.ast)} (`{seg(node.ast, 60)}`) does not depend on {r.fmt_deps(fi, missing)}: that operand is ignored on this path",
                   func=q, construct=f"`{seg(node.ast, 50)}` ignores {r.fmt_deps(fi, missing)}")
    chk.floor("DEP-MAY", "return sites of the arithmetic dunders", nsites, 18)
