def nk(node):
    """position key of an ast node (stable across pickling)"""
    return (getattr(node, "lineno", -1), getattr(node, "col_offset", -1), getattr(node, "end_lineno", -1), getattr(node, "end_col_offset", -1), type(node).__name__)
