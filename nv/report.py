"""Obligations, findings, known findings, evidence."""
from __future__ import annotations

import json
import os
import time
from typing import Dict, List, Optional

from . import AnalysisError

VERIF = os.path.dirname(os.path.dirname(os.path.abspath(__file__)))
KNOWN = os.path.join(VERIF, "known_findings.json")


class Finding:
    def __init__(self, prop: str, rule: str, func: str, construct: str, loc: str, message: str):
        self.prop, self.rule, self.func, self.construct, self.loc, self.message = prop, rule, func, construct, loc, message

    def key(self):
        return (self.prop, self.rule, self.func, self.construct)

    def asdict(self):
        return {"property": self.prop, "rule": self.rule, "function": self.func, "construct": self.construct, "loc": self.loc, "message": self.message}


def load_known() -> List[dict]:
    if not os.path.exists(KNOWN):
        return []
    with open(KNOWN) as fh:
        return json.load(fh).get("findings", [])


class Check:
    """collects the rule instances (obligations) evaluated for one property"""

    def __init__(self, prop: str, tier: str):
        self.prop = prop
        self.tier = tier
        self.t0 = time.time()
        self.obligations: List[dict] = []
        self.findings: List[Finding] = []
        self.notes: List[str] = []
        self.floors: List[dict] = []
        self.assumptions: List[str] = []
        self.explanation = ""
        self.decides: List[str] = []
        self.not_decided: List[str] = []
        self.extra: Dict[str, object] = {}
        self.selftest: Optional[dict] = None

    # an obligation = one rule instance on one construct
    def ob(self, rule: str, instance: str, ok: bool, loc: str = "", detail: str = "", func: str = "", construct: str = "", nontrivial: bool = True):
        self.obligations.append({"rule": rule, "instance": instance, "ok": bool(ok), "loc": loc, "detail": detail, "nontrivial": nontrivial})
        if not ok:
            self.findings.append(Finding(self.prop, rule, func or instance, construct or instance, loc, detail or instance))

    def floor(self, rule: str, what: str, got: int, need: int):
        self.floors.append({"rule": rule, "what": what, "got": got, "need": need})
        if got < need:
            raise AnalysisError(f"{self.prop}/{rule}: vacuity floor not met for {what}: found {got}, confirmed by hand {need} — the code moved and the rule no longer covers it")

    def note(self, s: str):
        if s not in self.notes:
            self.notes.append(s)

    def assume(self, s: str):
        if s not in self.assumptions:
            self.assumptions.append(s)

    # ------------------------------------------------------------------
    def classify(self):
        """split findings into known (listed, open) and new violations"""
        known = [k for k in load_known() if k.get("property") == self.prop and k.get("status", "open") == "open"]
        kn, new = [], []
        seen = set()
        for f in self.findings:
            if f.key() in seen:
                continue
            seen.add(f.key())
            hit = None
            for k in known:
                if k.get("rule") == f.rule and k.get("function") == f.func and k.get("construct") == f.construct:
                    hit = k
                    break
            (kn if hit else new).append((f, hit))
        return kn, new

    def evidence(self, seed: int, stats: dict) -> dict:
        kn, new = self.classify()
        distinct = {(o["rule"], o["instance"]) for o in self.obligations if o["nontrivial"]}
        samples = []
        byrule: Dict[str, int] = {}
        for o in self.obligations:
            byrule[o["rule"]] = byrule.get(o["rule"], 0) + 1
            if byrule[o["rule"]] <= 3:
                samples.append({"rule": o["rule"], "instance": o["instance"], "loc": o["loc"], "verdict": "holds" if o["ok"] else "VIOLATED", "detail": o["detail"][:300]})
        cov = {
            "explanation": self.explanation,
            "decides": self.decides,
            "not_decided": self.not_decided,
            "obligations": len(self.obligations),
            "discharged": sum(1 for o in self.obligations if o["ok"]),
            "evaluations": len(self.obligations),
            "distinct_nontrivial": len(distinct),
            "rule": "one obligation = one rule instance (rule x construct) evaluated on the resolved program model of the current /repo sources; "
            "non-trivial = the instance names an existing construct and is not vacuous by the rule's own floor; distinct by (rule, construct)",
            "samples": samples[:40],
            "per_rule": byrule,
            "floors": self.floors,
            "notes": self.notes[:60],
            "known_findings_reported": [f.asdict() for f, _ in kn],
            "violations_reported": [f.asdict() for f, _ in new],
            "analysis": stats,
            "checker_cmd": f"./check {self.prop} --tier {self.tier}",
            "trusted_base": ["nv/ (this checker)", "CPython ast", "models of builtins / numpy in nv/models*.py (numpy treated as pure; view/copy table)"],
        }
        if self.selftest is not None:
            cov["selftest"] = self.selftest
        cov.update(self.extra)
        return {
            "property_id": self.prop,
            "tier": self.tier,
            "seed": seed,
            "level": "other",
            "coverage": cov,
            "assumptions": self.assumptions,
            "wall_s": round(time.time() - self.t0, 3),
            "violations": len(new),
        }
