"""C16 — results do not depend on the number representation."""
from __future__ import annotations

import ast

from ..exact_entries import ENTRIES, entries
from ..vals import fmt_obj, root_of
from .common import CURVE_FIELDS, R, seg
from .divisions import reachable_functions

NEED = ("generic", "exact")
MIN_POINT = ["curves.BaseCurve.apply", "curves.Curve.__eval", "curves.Curve.split", "curves.Curve.knot_insert", "curves.Curve.degree_increase"]


def run(m, chk):
    r = R(m, chk)
    AX = m.exact()
    chk.explanation = (
        "Static discharge of structural clauses of C16 by a number-kind abstract interpretation run in the exact context (knots, nodes, control points, weights and user scalars are exact numbers; cls = Fraction; "
        "the recognised dispatch guards prune the float branches): no library-introduced float (float literal in arithmetic, float(x) as a value, math.*, np.sqrt/linspace/linalg/polynomial, float64 dtypes, "
        "np.zeros/ones/eye/empty without dtype=object, true division of two library integers) reaches a return value or a state write of the listed operations; no fixed-width integer dtype on those paths; on the polynomial "
        "paths of evaluation / insertion / elevation / splitting points are only used as `scalar * point` (point on the right) and `point + point`. Agreement of float and exact results to 1e-9 is not decided."
    )
    chk.decides = ["INT-MATRIX (the transformation matrices of A + B are multiplied as matrices of objects: large integer control points are not summed in 64 bits)", "INT-RATIO (no true division in curves.py has numerator and denominator both read straight from weights / control points: int data on Fraction knots never meet as int / int)", "GATE-TOL (the refusal is `error > tolerance`, strictly: the exact error 0 of a removable knot passes tolerance = 0)", "QUAD-ORDER (the span-by-span rule of func2func has more than 2 max(p, q) nodes: exact for the squares of both bases)", "E8: no library float reaches a sink of the exact entries", "FIXED-WIDTH", "MIN-POINT", 'MEMO-KEY', 'no truncated library float (int(float)) used as a value', 'ONE-NODE-FAMILY (fit_points)', 'PROBE-OPERAND (+= / -= of a KnotVector ask the operand whether it is a number)', 'LOSSY-COMPARE', 'DTYPE-INHERIT']
    chk.not_decided = ["float and exact runs agree to relative 1e-9", "conditioning", "values equal the mathematically exact result"]
    chk.assume("user `int / int` at the API surface is Python semantics, not a float introduced by the library")
    chk.assume("a true division is reported only when both operands are library integers on every path ('may be an integer' is not reported)")
    chk.assume("unknown number kinds are never reported; their number is given in the evidence")
    ents = entries(m.prog)
    from .extra import int_matrix, int_ratio

    int_matrix(r, chk, ["curves.BaseCurve.__add__", "heavy.Operations.matrix_transformation"], floor=1)

    int_ratio(r, chk)
    nsink = e8_sinks(chk, AX, ents)
    chk.floor("E8", "sinks (returns and state writes) of the exact entries", nsink, 90)
    _rest(m, chk, r, AX, ents)


def e8_sinks(chk, AX, ents) -> int:
    """no float introduced by the library reaches a return value or a state write of the given exact entries"""
    nsink = 0
    for q in ents:
        ctx = AX.roots.get(q)
        if ctx is None:
            continue
        sinks = []
        if ctx.summary.ret is not None:
            sinks.append(("return value", ctx.summary.ret))
        for (o, f), v in ctx.summary.heap.items():
            if root_of(o) is not None and o[0] == "P":
                sinks.append((f"state write {fmt_obj(o)}.{f.split('__')[-1]}", v))
        for what, v in sinks:
            nsink += 1
            ks = v.all_kinds()
            src = sorted(str(s) for s in v.all_fsrc() if not isinstance(s, tuple))
            # a float handed in by a (float) caller and handed back is not introduced by the library;
            # kind L = an integer obtained by truncating a library float and then used as a value
            bad = ("F" in ks and bool(src)) or "L" in ks
            if "L" in ks and not src:
                src = ["?: an integer obtained by int(<float computed by the library>) is used as a value"]
            chk.ob("E8", f"{q}: no library float reaches the {what}", not bad, loc=src[0].split(": ")[0] if (bad and src) else f"{ctx.fi.module}.py:{ctx.fi.node.lineno}",
                   detail="" if not bad else f"{q}: with exact input a float introduced by the library reaches the {what}: {'; '.join(src[:3]) or 'origin not tracked'}",
                   func=q, construct=f"float reaches {what.split(' ')[0]}: " + (src[0].split(': ', 1)[1][:60] if src else "?"))
    return nsink


def _rest(m, chk, r, AX, ents):
    chk.extra["unknown_kind_guards"] = AX.stats.get("u_guards", 0)
    chk.extra["exact_entries"] = len(ents)
    # fixed-width integers
    reach = set(reachable_functions(r, ents))
    fw = sorted({n for n in AX.notes if isinstance(n, tuple) and n[0] == "fixed-width"})
    nfw = 0
    for _, q, loc, text in fw:
        if q not in reach:
            continue
        nfw += 1
        chk.ob("FIXED-WIDTH", f"{q}: `{text[:50]}`", False, loc=loc, detail=f"{q}: `{text}` at {loc} casts an exact result to a fixed-width integer dtype: integers beyond 2**63 overflow (or wrap) although the exact path promises arbitrary precision", func=q, construct=f"fixed-width cast {text[:40]}")
    if not nfw:
        chk.ob("FIXED-WIDTH", "no fixed-width integer dtype on the exact paths", True, loc="", detail="")
    from .extra import memo_key, one_node_family, probe_operand

    memo_key(r, chk)
    from .extra import dtype_inherit, lossy_compare

    lossy_compare(r, chk, AX)
    dtype_inherit(r, chk, ents)
    one_node_family(r, chk, "curves.Curve.fit_points")
    probe_operand(r, chk, ["knotspace.KnotVector.__iadd__", "knotspace.KnotVector.__isub__"])
    # positive control: the kind analysis does see library floats where they are by design
    pc = AX.ctxs
    ctl = 0
    for q in ("heavy.NodeSample.chebyshev", "heavy.IntegratorArray.gauss_legendre", "heavy.Calculus.difference_vector"):
        for k, c in pc.items():
            if k[0] == q and c.summary.ret is not None and "F" in c.summary.ret.all_kinds():
                ctl += 1
                break
    chk.extra["float_positive_controls_seen"] = ctl
    from .c05 import tolerance_gate

    tolerance_gate(r, chk)  # exact data: an error of exactly 0 passes a tolerance of 0
    from .extra import quad_order

    quad_order(r, chk)
    min_point(r, chk, MIN_POINT, floor=4)


def min_point(r, chk, quals, floor: int = 4):
    """minimal point type (`scalar * point`, `point + point`): no sum() from the int 0, no division of a point, no `point * scalar`"""
    # minimal point type: a syntactic taint of "is a control point" / "is a container of control points"
    n = 0
    for q in quals:
        ctx = r.root(q)
        fi = ctx.fi
        pts, conts = point_taint(fi)

        def is_cont(e):
            if isinstance(e, ast.Attribute) and e.attr == "ctrlpoints":
                return True
            if isinstance(e, ast.Name):
                return e.id in conts
            if isinstance(e, ast.Call) and isinstance(e.func, ast.Name) and e.func.id in ("tuple", "list") and e.args:
                return is_cont(e.args[0])
            if isinstance(e, (ast.ListComp, ast.GeneratorExp)):
                return is_pt(e.elt, local=_comp_points(e, is_cont))
            return False

        def is_pt(e, local=frozenset()):
            if isinstance(e, ast.Name):
                return e.id in pts or e.id in local
            if isinstance(e, ast.Subscript):
                return is_cont(e.value)
            if isinstance(e, ast.BinOp):
                return is_pt(e.left, local) or is_pt(e.right, local)
            if isinstance(e, ast.Call) and isinstance(e.func, ast.Name) and e.func.id in ("copy", "deepcopy") and e.args:
                return is_pt(e.args[0], local)
            return False

        # loop variables of comprehensions over containers of points are points too (flow-insensitive, per function)
        for comp in ast.walk(fi.node):
            if isinstance(comp, (ast.ListComp, ast.GeneratorExp)):
                pts |= set(_comp_points(comp, is_cont))
        for node in ast.walk(fi.node):
            # the builtin sum() starts from the int 0: `0 + point` asks the point type for __radd__ with an int
            if isinstance(node, ast.Call) and isinstance(node.func, ast.Name) and node.func.id == "sum" and len(node.args) == 1 and not node.keywords:
                a0 = node.args[0]
                summed_points = (isinstance(a0, (ast.ListComp, ast.GeneratorExp)) and is_pt(a0.elt, local=_comp_points(a0, is_cont))) or is_cont(a0)
                if summed_points:
                    n += 1
                    chk.ob("MIN-POINT", f"{q}: `{seg(node, 50)}` does not add a point to the int 0", False, loc=r.loc(ctx, node),
                           detail=f"{q}: `{seg(node, 60)}` sums (weighted) control points with the builtin sum(), which starts from the int 0: the first step is `0 + point`, and a user point type that only supports `scalar * point` and `point + point` has no __radd__ for an int — start from `0 * point` (or give sum a start value of the point type)",
                           func=q, construct=f"points summed from int 0: {seg(node, 40)}")
            # division of a point (point / scalar, point /= scalar) is not among the two supported operations
            dv = None
            if isinstance(node, ast.BinOp) and isinstance(node.op, ast.Div) and (is_pt(node.left) or is_cont(node.left)):
                dv = node
            elif isinstance(node, ast.AugAssign) and isinstance(node.op, ast.Div) and (is_pt(node.target) or is_cont(node.target)):
                dv = node
            if dv is not None:
                n += 1
                chk.ob("MIN-POINT", f"{q}: `{seg(dv, 50)}` does not divide a point", False, loc=r.loc(ctx, dv),
                       detail=f"{q}: `{seg(dv, 60)}` divides a (weighted) control point by a scalar: a user point type that only supports `scalar * point` and `point + point` fails on this path (rational curves), and numpy refuses the in-place form for integer arrays; multiply by the inverse of the scalar instead",
                       func=q, construct=f"point divided: {seg(dv, 40)}")
                continue
            l = rr = None
            if isinstance(node, ast.BinOp) and isinstance(node.op, (ast.Mult, ast.MatMult)):
                l, rr = node.left, node.right
                lp, rp = is_pt(l) or is_cont(l), is_pt(rr) or is_cont(rr)
            elif isinstance(node, ast.Call) and seg(node.func) in ("np.dot", "np.matmul", "np.tensordot", "np.inner") and len(node.args) >= 2:
                l, rr = node.args[0], node.args[1]
                lp, rp = is_cont(l) or is_pt(l), is_cont(rr) or is_pt(rr)
            if l is None or not (lp or rp):
                continue
            n += 1
            ok = not (lp and not rp)
            chk.ob("MIN-POINT", f"{q}: `{seg(node, 50)}` uses the points as right operand", ok, loc=r.loc(ctx, node),
                   detail="" if ok else f"{q}: `{seg(node, 60)}` multiplies `point * scalar` (points on the left): a user point type that only supports `scalar * point` and `point + point` (docs: custom objects) fails on this path", func=q, construct=f"point on the left: {seg(node, 40)}")
    chk.floor("MIN-POINT", "products involving control points on the listed paths", n, floor)
    return n


def _comp_points(comp, is_cont):
    out = set()
    for g in comp.generators:
        out |= _target_points(g.target, g.iter, is_cont)
    return frozenset(out)


def _target_points(target, it, is_cont):
    out = set()
    if isinstance(it, ast.Call) and isinstance(it.func, ast.Name) and it.func.id == "zip" and isinstance(target, ast.Tuple):
        for t, a in zip(target.elts, it.args):
            if isinstance(t, ast.Name) and is_cont(a):
                out.add(t.id)
    elif isinstance(it, ast.Call) and isinstance(it.func, ast.Name) and it.func.id == "enumerate" and isinstance(target, ast.Tuple) and len(target.elts) == 2 and it.args:
        if isinstance(target.elts[1], ast.Name) and is_cont(it.args[0]):
            out.add(target.elts[1].id)
    elif isinstance(target, ast.Name) and is_cont(it):
        out.add(target.id)
    return out


def point_taint(fi):
    """names that hold a control point / a container of control points (flow-insensitive fixpoint)"""
    pts, conts = set(), set()

    def is_cont(e):
        if isinstance(e, ast.Attribute) and e.attr == "ctrlpoints":
            return True
        if isinstance(e, ast.Name):
            return e.id in conts
        if isinstance(e, ast.Call) and isinstance(e.func, ast.Name) and e.func.id in ("tuple", "list") and e.args:
            return is_cont(e.args[0])
        if isinstance(e, (ast.ListComp, ast.GeneratorExp)):
            loc = _comp_points(e, is_cont)
            return is_pt(e.elt, loc)
        if isinstance(e, ast.List):
            return any(is_pt(x) for x in e.elts)
        return False

    def is_pt(e, local=frozenset()):
        if isinstance(e, ast.Name):
            return e.id in pts or e.id in local
        if isinstance(e, ast.Subscript):
            return is_cont(e.value)
        if isinstance(e, ast.BinOp):
            return is_pt(e.left, local) or is_pt(e.right, local)
        if isinstance(e, ast.Call) and isinstance(e.func, ast.Name) and e.func.id in ("copy", "deepcopy") and e.args:
            return is_pt(e.args[0], local)
        return False

    changed = True
    while changed:
        changed = False
        for n in ast.walk(fi.node):
            if isinstance(n, ast.Assign) and len(n.targets) == 1 and isinstance(n.targets[0], ast.Name):
                nm = n.targets[0].id
                if is_cont(n.value) and nm not in conts:
                    conts.add(nm)
                    changed = True
                if is_pt(n.value) and nm not in pts:
                    pts.add(nm)
                    changed = True
            elif isinstance(n, ast.For):
                for x in _target_points(n.target, n.iter, is_cont):
                    if x not in pts:
                        pts.add(x)
                        changed = True
            elif isinstance(n, ast.Call) and isinstance(n.func, ast.Attribute) and n.func.attr == "append" and isinstance(n.func.value, ast.Name) and n.args and is_pt(n.args[0]):
                if n.func.value.id not in conts:
                    conts.add(n.func.value.id)
                    changed = True
    return pts, conts
