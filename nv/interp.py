"""E2/E3/E5/E7/E8 — whole-program abstract interpreter.

One forward dataflow per (function, calling context) over the CFG of cfg.py with the
product domain of vals.py.  Calls go through summaries (return value, heap at exit,
mutation effects) computed for the callee under the abstract types / kinds / constants of
the actual arguments (polyvariant in those, symbolic in objects and dependences).
"""
from __future__ import annotations

import ast
from typing import Dict, List, Optional, Tuple

from .cfg import CFG
from .index import FuncInfo, Program, mangle
from .interp_keys import nk
from .models import ModelsMixin
from .models_calls import CallModelsMixin
from .vals import (
    EMPTY,
    IMMUTABLE_TY,
    NONE,
    UNKNOWN,
    Val,
    join,
    joinall,
    mk_bool,
    mk_int,
    mk_str,
    root_of,
    top_src,
)

NUM_TY = frozenset({"int", "float", "number", "bool"})
EXACT_K = frozenset({"Z", "Q"})
INPLACE = {
    ast.Add: "__iadd__",
    ast.Sub: "__isub__",
    ast.Mult: "__imul__",
    ast.Div: "__itruediv__",
    ast.BitOr: "__ior__",
    ast.BitAnd: "__iand__",
    ast.MatMult: "__imatmul__",
    ast.FloorDiv: "__ifloordiv__",
    ast.Mod: "__imod__",
    ast.Pow: "__ipow__",
    ast.BitXor: "__ixor__",
}
BINOP = {
    ast.Add: ("__add__", "__radd__"),
    ast.Sub: ("__sub__", "__rsub__"),
    ast.Mult: ("__mul__", "__rmul__"),
    ast.Div: ("__truediv__", "__rtruediv__"),
    ast.BitOr: ("__or__", "__ror__"),
    ast.BitAnd: ("__and__", "__rand__"),
    ast.MatMult: ("__matmul__", "__rmatmul__"),
    ast.FloorDiv: ("__floordiv__", "__rfloordiv__"),
    ast.Mod: ("__mod__", "__rmod__"),
    ast.Pow: ("__pow__", "__rpow__"),
    ast.BitXor: ("__xor__", "__rxor__"),
}
CMPOP = {ast.Eq: "__eq__", ast.NotEq: "__ne__", ast.Lt: "__lt__", ast.LtE: "__le__", ast.Gt: "__gt__", ast.GtE: "__ge__"}
MUTATING_METHODS = {
    "list": {"append", "extend", "insert", "remove", "pop", "sort", "reverse", "clear"},
    "set": {"add", "discard", "remove", "pop", "clear", "update", "difference_update", "intersection_update"},
    "dict": {"pop", "popitem", "clear", "update", "setdefault"},
    "ndarray": {"fill", "sort", "resize", "put", "itemset"},
}
MUTABLE_TY = frozenset({"list", "set", "dict", "ndarray"})


class State:
    __slots__ = ("env", "heap", "pc")

    def __init__(self, env=None, heap=None, pc=None):
        self.env: Dict[str, Val] = env if env is not None else {}
        self.heap: Dict[tuple, Val] = heap if heap is not None else {}
        self.pc: Dict[int, tuple] = pc if pc is not None else {}

    def copy(self) -> "State":
        return State(dict(self.env), dict(self.heap), dict(self.pc))

    def same(self, o: "State") -> bool:
        return self.env == o.env and self.heap == o.heap and self.pc == o.pc

    def pc_dep(self):
        d = set()
        m = set()
        for _pol, dep, mdep in self.pc.values():
            d |= dep
            m |= mdep
        return frozenset(d), frozenset(m)


def join_state(a: Optional[State], b: Optional[State], initial_field=None) -> Optional[State]:
    if a is None:
        return b.copy() if b is not None else None
    if b is None:
        return a
    # pc: keep common entries, collect the conditions on which the two paths differ
    pc = {}
    xdep, xmdep = set(), set()
    for k, v in a.pc.items():
        w = b.pc.get(k)
        if w is None:
            continue
        if w[0] == v[0]:
            pc[k] = (v[0], v[1] | w[1], v[2] & w[2])
        else:
            xdep |= v[1] | w[1]
            xmdep |= v[2] | w[2]
    xdep, xmdep = frozenset(xdep), frozenset(xmdep)

    def jv(x: Optional[Val], y: Optional[Val]) -> Optional[Val]:
        if x is None or y is None:
            return x if y is None else y
        if x is y or x == y:
            return x
        r = join(x, y)
        if xdep or xmdep:
            r = r.add_dep(xdep, xmdep)
        return r

    env = {}
    for k in a.env.keys() | b.env.keys():
        env[k] = jv(a.env.get(k), b.env.get(k))
    heap = {}
    for k in a.heap.keys() | b.heap.keys():
        x, y = a.heap.get(k), b.heap.get(k)
        if (x is None or y is None) and initial_field is not None:
            # a field written on one path only: the other path keeps the initial value
            init = initial_field(k)
            if init is not None:
                x = init if x is None else x
                y = init if y is None else y
        heap[k] = jv(x, y)
    return State(env, heap, pc)


class CallRec:
    __slots__ = ("node", "cfgnode", "callees", "args", "kind", "recv", "ret")

    def __init__(self, node, cfgnode, callees, args, kind, recv=None, ret=None):
        self.node = node  # ast node of the call-like construct
        self.cfgnode = cfgnode  # cfg node id
        self.callees: List[FuncInfo] = callees
        self.args: List[Dict[str, Val]] = args  # per callee: param name -> Val
        self.kind = kind  # call | getter | setter | binop | augop | cmp | subscript | new | iter | copy
        self.recv = recv
        self.ret = ret


class Summary:
    __slots__ = ("ret", "heap", "effects", "notes", "version", "raises")

    def __init__(self):
        self.ret: Optional[Val] = None
        self.heap: Dict[tuple, Val] = {}
        self.effects: frozenset = EMPTY  # (kind, obj, field, loc)   kind W | M
        self.raises: frozenset = EMPTY  # (exception type name, origin loc) that may escape
        self.version = 0

    def same(self, o: "Summary") -> bool:
        return self.ret == o.ret and self.heap == o.heap and self.effects == o.effects and self.raises == o.raises


class Ctx:
    """analysis of one function in one context"""

    def __init__(self, fi: FuncInfo, key, params: List[Val]):
        self.fi = fi
        self.key = key
        self.params = params
        self.cfg: Optional[CFG] = None
        self.state_in: Dict[int, State] = {}
        self.summary = Summary()
        self.vals: Dict[int, Val] = {}
        self.calls: List[CallRec] = []
        self.effects = set()
        self.node_effects: Dict[int, set] = {}
        self.calls_map: Dict[tuple, CallRec] = {}
        self.ret_sites: Dict[int, Val] = {}
        self.ret_states: Dict[int, State] = {}
        self.node_raises: Dict[int, set] = {}
        self.raises: set = set()
        self.in_progress = False
        self.done_iter = -1
        self.recording = False
        self.unresolved: List[str] = []
        self.analyzed = False
        self.dirty = False
        self.callee_seen: Dict[tuple, tuple] = {}
        self.ftab_ver = -1
        self.param_ver = 0

    def val(self, node: ast.AST) -> Optional[Val]:
        return self.vals.get(nk(node))

    def calls_at(self, node: ast.AST) -> List[CallRec]:
        return [c for c in self.calls if c.node is node]


def _is_abstract(fi: FuncInfo) -> bool:
    return fi.module == "__classes__"


ANNOT_INST = {
    "KnotVector": "KnotVector",
    "Intface_KnotVector": "KnotVector",
    "ImmutableKnotVector": "ImmutableKnotVector",
    "Curve": "Curve",
    "BaseCurve": "BaseCurve",
    "Intface_BaseCurve": "BaseCurve",
    "BaseFunction": "BaseFunction",
    "Intface_BaseFunction": "BaseFunction",
    "Function": "Function",
    "FunctionEvaluator": "FunctionEvaluator",
}


class Analyzer:
    def __init__(self, prog: Program, exact: bool = False, max_iter: int = 16):
        self.prog = prog
        self.exact = exact
        self.max_iter = max_iter
        self.ctxs: Dict[tuple, Ctx] = {}
        self.roots: Dict[str, Ctx] = {}
        self.ftab: Dict[str, Val] = {}
        self.cfgs: Dict[str, CFG] = {}
        self.iteration = 0
        self.changed = False
        self.lambdas: Dict[str, ast.Lambda] = {}
        self.stats = {"ctx": 0, "calls_resolved": 0, "calls_unresolved": 0, "iterations": 0, "transfers": 0}
        self.depth = 0
        self.observed: Dict[str, List[Optional[Val]]] = {}
        self.widen_after = 8
        self.ftab_ver = 0
        self.notes: List[str] = []

    # ------------------------------------------------------------------ driver
    def run(self, roots: Optional[List[str]] = None):
        funcs = [f for f in self.prog.all_functions() if not _is_abstract(f)]
        if roots is not None:
            funcs = [self.prog.func(q) for q in roots]
        for it in range(self.max_iter):
            self.iteration = it
            self.changed = False
            for fi in funcs:
                self.analyze_root(fi)
            self.stats["iterations"] = it + 1
            if not self.changed:
                break
        self.stats["ctx"] = len(self.ctxs)
        return self

    def cfg_of(self, fi: FuncInfo) -> CFG:
        c = self.cfgs.get(fi.qual)
        if c is None:
            c = self.cfgs[fi.qual] = CFG(fi.node)
        return c

    def root(self, qual: str) -> Ctx:
        self.prog.func(qual)
        return self.roots[qual]

    # ------------------------------------------------------------------ seeds
    def user_number(self) -> Val:
        return Val(ty={"number"}, kind=EXACT_K if self.exact else {"Z", "Q", "F"})

    def annot_val(self, ann: Optional[ast.expr], depth=0) -> Val:
        if ann is None or depth > 3:
            return UNKNOWN
        if isinstance(ann, ast.Constant):
            if ann.value is None:
                return NONE
            if isinstance(ann.value, str):
                try:
                    return self.annot_val(ast.parse(ann.value, mode="eval").body, depth + 1)
                except SyntaxError:
                    return UNKNOWN
            return UNKNOWN
        if isinstance(ann, ast.Name):
            n = ann.id
            if n in ANNOT_INST:
                c = ANNOT_INST[n]
                v = Val(ty={"inst:" + c})
                if c in ("KnotVector", "ImmutableKnotVector"):
                    v = v.with_(elem=self.user_number())
                return v
            if n == "float":
                return self.user_number()
            if n == "int":
                return Val(ty={"int"}, kind={"I"})
            if n == "str":
                return mk_str()
            if n == "bool":
                return mk_bool()
            if n == "type":
                return Val(ty={"cls:?"})
            if n in ("tuple", "list", "Tuple"):
                return Val(ty={"tuple", "list", "ndarray"}, elem=UNKNOWN)
            if n == "Callable":
                return Val(ty={"callable"})
            if n == "slice":
                return Val(ty={"slice"})
            return UNKNOWN
        if isinstance(ann, ast.Attribute):
            if ann.attr == "ndarray":
                return Val(ty={"tuple", "list", "ndarray"}, elem=UNKNOWN)
            return UNKNOWN
        if isinstance(ann, ast.Subscript):
            base = ann.value
            bn = base.id if isinstance(base, ast.Name) else getattr(base, "attr", "")
            sl = ann.slice
            args = list(sl.elts) if isinstance(sl, ast.Tuple) else [sl]
            if bn == "Optional":
                return join(self.annot_val(args[0], depth + 1), NONE)
            if bn == "Union":
                return joinall(self.annot_val(a, depth + 1) for a in args)
            if bn in ("Tuple", "tuple", "List", "list"):
                el = joinall(self.annot_val(a, depth + 1) for a in args if not (isinstance(a, ast.Constant) and a.value is Ellipsis))
                # element annotations are loose in this repository (Tuple[float] is used for tuples of
                # tuples as well): keep the kind, but do not claim the element type
                if el is not None and not any(t.startswith("inst:") for t in el.ty) and not (el.ty & {"tuple", "list", "ndarray"}):
                    el = el.with_(ty=el.ty | {"?"})
                return Val(ty={"tuple", "list", "ndarray"}, elem=el if el is not None else UNKNOWN)
            if bn == "Callable":
                return Val(ty={"callable"})
            return UNKNOWN
        if isinstance(ann, ast.BinOp) and isinstance(ann.op, ast.BitOr):
            return join(self.annot_val(ann.left, depth + 1), self.annot_val(ann.right, depth + 1))
        return UNKNOWN

    def seed_params(self, fi: FuncInfo) -> List[Val]:
        out = []
        for i, p in enumerate(fi.params):
            if i == 0 and fi.has_self:
                v = Val(ty={"inst:" + fi.clsname})
                if fi.clsname in ("KnotVector", "ImmutableKnotVector"):
                    v = v.with_(elem=self.user_number())
            elif i == 0 and fi.kind in ("new", "classmethod"):
                v = Val(ty={"cls:" + fi.clsname})
            else:
                v = self.annot_val(fi.annots.get(p))
                if p in fi.defaults:
                    d = fi.defaults[p]
                    if isinstance(d, ast.Constant) and d.value is None:
                        v = join(v, NONE)
                    elif isinstance(d, ast.Name) and "cls:?" in v.ty:
                        v = join(v, Val(ty={"cls:" + d.id}))
                if p == "cls" and "cls:?" in v.ty and self.exact:
                    v = Val(ty={"cls:Fraction"})
                if self.exact:
                    from .exact_entries import BINDINGS

                    if p in BINDINGS.get(fi.qual, {}):
                        b = BINDINGS[fi.qual][p]
                        v = NONE if b is None else v
            out.append(v)
        if getattr(fi, "vararg", None):
            out.append(Val(ty={"tuple"}, elem=self.annot_val(fi.node.args.vararg.annotation)))
        return out

    # ------------------------------------------------------------------ contexts
    def _akey(self, v: Val, d=0):
        """coarse context key of an actual argument: repository classes, callables, None-ness,
        symbolic constants (strings / classes / None / booleans) and, in exact mode, number kinds.
        Everything else is joined into the parameter value of the shared context."""
        if v is None:
            return None
        tags = frozenset(t for t in v.ty if t.startswith(("inst:", "cls:", "func:", "bfunc:", "lam:", "ext:", "builtin:", "mod:")))
        other = frozenset(t for t in v.ty if t in ("None", "?")) | (frozenset({"o"}) if any(not t.startswith(("inst:", "cls:", "func:", "bfunc:", "lam:", "ext:", "builtin:", "mod:")) and t not in ("None", "?") for t in v.ty) else EMPTY)
        const = None
        if v.const is not None and all(c is None or isinstance(c, (str, bool)) for c in v.const):
            const = v.const
        kinds = None
        if self.exact:
            k = v.all_kinds() - {"N"}
            # containing floats / unknown numbers or not
            kinds = bool(k - {"I", "Z", "Q", "L"})
        e = v.iter_join() if d < 1 else None
        ek = None
        if e is not None and any(t.startswith(("inst:", "func:", "bfunc:")) for t in e.ty):
            ek = frozenset(t for t in e.ty if t.startswith(("inst:", "func:", "bfunc:")))
        return (tags, other, const, kinds, ek)

    def param_val(self, i: int, a: Val, depth=0, obj=None) -> Val:
        """the value of parameter i inside the callee: types/kinds/constants of the actual,
        symbolic object and dependence."""
        o = ("P", i) if obj is None else obj
        src = frozenset({("P", i)})
        elem = None
        items = None
        if depth < 2:
            if a.items is not None and depth == 0:
                items = tuple(self.param_val(i, x, depth + 1, ("E", o)) for x in a.items)
            e = a.elem if a.elem is not None else (a.iter_join() if a.items is not None else None)
            if e is not None:
                elem = self.param_val(i, e, depth + 1, ("E", o))
        immut = a.ty and a.ty <= {"int", "float", "number", "bool", "str", "None", "slice"} or any(
            t.startswith(("cls:", "func:", "bfunc:", "ext:", "builtin:", "mod:", "lam:")) for t in a.ty
        ) and all(t.startswith(("cls:", "func:", "bfunc:", "ext:", "builtin:", "mod:", "lam:")) or t == "None" for t in a.ty)
        fs = frozenset({("param", i)}) if "F" in a.kind else EMPTY
        if "L" in a.kind and depth == 0 and getattr(self, "_cur_int_params", None) and i in self._cur_int_params:
            a = a.with_(kind=(a.kind - {"L"}) | {"I"})  # handed to an `int` parameter: used as a count
        return Val(
            ty=a.ty,
            pts=EMPTY if immut else {o},
            dep=src,
            mdep=src,
            kind=a.kind,
            fsrc=fs,
            const=a.const if a.const is not None and all(c is None or isinstance(c, (str, bool)) for c in a.const) else (frozenset({("sym", i) if depth == 0 else ("sym", i, "elem")}) if depth < 2 else None),
            elem=elem,
            items=items,
            dmap=a.dmap,
        )

    def analyze_root(self, fi: FuncInfo) -> Ctx:
        """the root context of a function is the merged view: annotation seeds joined with the types /
        kinds / constants of every actual argument observed at a call site of the program"""
        seeds = self.seed_params(fi)
        obs = self.observed.get(fi.qual)
        if obs and not self.exact:  # the exact context is defined by its bindings, not by the callers
            seeds = [join(s_, o) if o is not None else s_ for s_, o in zip(seeds, obs + [None] * (len(seeds) - len(obs)))]
        ctx = self._ctx(fi, seeds, observe=False)
        self.roots[fi.qual] = ctx
        self._analyze_ctx(ctx)
        return ctx

    @staticmethod
    def _strip(v: Optional[Val], d=0) -> Optional[Val]:
        if v is None:
            return None
        e = v.iter_join()
        const = v.const if v.const is not None and all(c is None or isinstance(c, (str, bool)) for c in v.const) else None
        return Val(ty=v.ty, kind=v.kind, const=const, elem=Analyzer._strip(e, d + 1) if d < 2 else None, fsrc=v.fsrc)

    def _ctx(self, fi: FuncInfo, args: List[Val], observe: bool = True) -> Ctx:
        if observe:
            obs = self.observed.setdefault(fi.qual, [])
            for i, a in enumerate(args):
                sa = self._strip(a)
                if i >= len(obs):
                    obs.append(sa)
                else:
                    j = join(obs[i], sa)
                    if j is not None:
                        j = j.trunc()
                    if j != obs[i]:
                        obs[i] = j
        key = (fi.qual, tuple(self._akey(a) for a in args))
        ctx = self.ctxs.get(key)
        self._cur_int_params = {i for i, p in enumerate(fi.params) if isinstance(fi.annots.get(p), ast.Name) and fi.annots[p].id == "int"}
        params = [self.param_val(i, a) for i, a in enumerate(args)]
        self._cur_int_params = None
        if ctx is None:
            ctx = self.ctxs[key] = Ctx(fi, key, params)
            ctx.cfg = self.cfg_of(fi)
            return ctx
        newp = [join(p, q).trunc() for p, q in zip(ctx.params, params)]
        if newp != ctx.params:
            ctx.params = newp
            ctx.param_ver += 1
            ctx.dirty = True
            if not ctx.in_progress:
                ctx.done_iter = -1
            self.changed = True
        return ctx

    def analyze(self, fi: FuncInfo, args: List[Val]) -> Tuple[Ctx, Summary]:
        ctx = self._ctx(fi, args)
        self._analyze_ctx(ctx)
        return ctx, ctx.summary

    def _analyze_ctx(self, ctx: Ctx):
        if ctx.in_progress or ctx.done_iter == self.iteration:
            return
        if self.depth > 60:
            return
        ctx.in_progress = True
        self.depth += 1
        try:
            if ctx.analyzed and not ctx.dirty:
                # re-analysis is needed only if something it consulted has changed
                for k in list(ctx.callee_seen):
                    c = self.ctxs.get(k)
                    if c is not None:
                        self._analyze_ctx(c)
                if ctx.ftab_ver == self.ftab_ver and all(
                    self.ctxs[k].summary.version == v and self.ctxs[k].param_ver == pv for k, (v, pv) in ctx.callee_seen.items()
                ):
                    return
            ctx.dirty = False
            ctx.callee_seen = {}
            ctx.ftab_ver = self.ftab_ver
            FuncInterp(self, ctx).run()
            ctx.analyzed = True
            if ctx.ftab_ver != self.ftab_ver:
                ctx.dirty = True
                self.changed = True
        finally:
            self.depth -= 1
            ctx.in_progress = False
            ctx.done_iter = self.iteration

    # ------------------------------------------------------------------ field table
    def ftab_get(self, field: str) -> Optional[Val]:
        return self.ftab.get(field)

    def ftab_add(self, field: str, v: Val):
        def strip(x: Val, d=0) -> Val:
            e = x.iter_join()
            k = x.kind
            return Val(ty=x.ty, kind=k, fsrc=frozenset(f for f in x.fsrc if not isinstance(f, tuple)), elem=None if e is None or d >= 2 else strip(e, d + 1))

        s = strip(v)
        old = self.ftab.get(field)
        new = join(old, s)
        if old is None or new != old:
            self.ftab[field] = new
            self.ftab_ver += 1
            self.changed = True


BUILTIN_CLASSES = {"int", "float", "str", "tuple", "list", "set", "dict", "bool", "Fraction", "object", "type", "slice", "frozenset", "complex"}
EXC_NAMES = {"ValueError", "TypeError", "IndexError", "KeyError", "AssertionError", "NotImplementedError", "Exception", "ZeroDivisionError", "RuntimeError", "AttributeError", "StopIteration", "OverflowError", "ArithmeticError", "BaseException", "LookupError"}
KRANK = {"N": 0, "I": 1, "Z": 2, "Q": 3, "L": 3.5, "U": 4, "F": 5}


def _callable_tag(t: str) -> bool:
    return t.startswith(("func:", "bfunc:", "cls:", "ext:", "builtin:", "lam:", "mod:", "super:"))


class FuncInterp(ModelsMixin, CallModelsMixin):
    def __init__(self, A: Analyzer, ctx: Ctx):
        self.A = A
        self.prog = A.prog
        self.ctx = ctx
        self.fi = ctx.fi
        self.cfg = ctx.cfg
        self.mod = self.prog.modules[self.fi.module]
        self.cur = None  # current cfg node
        self.ret: Optional[Val] = None
        self.yields: Optional[Val] = None
        self.exit_state: Optional[State] = None
        self.dead = False
        self.alts: List[list] = []
        self.nraise = set()
        self.normal_live = self.cfg.normal_live()

    # ------------------------------------------------------------------ driver
    def run(self):
        ctx, cfg = self.ctx, self.cfg
        ctx.vals = {}
        ctx.calls_map = {}
        ctx.effects = set()
        ctx.node_effects = {}
        ctx.ret_sites = {}
        ctx.ret_states = {}
        ctx.node_raises = {}
        ctx.raises = set()
        ctx.unresolved = []
        st0 = State()
        names = list(self.fi.params)
        if getattr(self.fi, "vararg", None):
            names.append(self.fi.vararg)
        for n, v in zip(names, ctx.params):
            st0.env[n] = v
        ins: Dict[int, State] = {cfg.entry: st0}
        work = {cfg.entry}
        steps = 0
        while work:
            nid = min(work)
            work.discard(nid)
            node = cfg.nodes[nid]
            s_in = ins[nid]
            steps += 1
            if steps > 4000:
                self.A.notes.append(f"dataflow cut-off in {self.fi.qual}")
                break
            if node.kind in ("exit", "raise"):
                continue
            self.nraise = set()
            self.dead = False
            self.alts = []
            outs = self.transfer(node, s_in)
            if self.dead:
                outs = {k: v for k, v in outs.items() if k == "exc"}
            for s_o in outs.values():
                if s_o is not None and len(s_o.heap) > 48:
                    self.gc(s_o)
            if self.nraise:
                ctx.node_raises[nid] = set(self.nraise)
                self.escape(node)
            for tgt, lab in node.succ:
                key = "n" if lab == "back" else lab
                s_out = outs.get(key)
                if s_out is None:
                    continue
                if lab == "exc":
                    tn = cfg.nodes[tgt]
                    if not self.nraise:
                        continue
                    if tn.kind == "handler" and not self.handler_matches(tn.ast):
                        continue
                old = ins.get(tgt)
                new = join_state(old, s_out, self.initial_field)
                if old is None or not new.same(old):
                    ins[tgt] = new
                    work.add(tgt)
        self.A.stats["transfers"] += steps
        ctx.state_in = ins
        ctx.calls = list(ctx.calls_map.values())
        # summary
        new = Summary()
        ret = self.ret
        if self.yields is not None:
            ret = Val(ty={"iter"}, elem=self.yields, dep=self.yields.all_dep(), mdep=self.yields.mdep)
        ex = ins.get(cfg.exit)
        if ex is not None and ret is None:
            ret = NONE
        new.ret = ret
        if ex is not None:
            keep = self.reachable_objs(ret, ex.heap)
            new.heap = {k: v.trunc() for k, v in ex.heap.items() if k[0] in keep or root_of(k[0]) is not None or k[0][0] == "G"}
        new.effects = frozenset(ctx.effects)
        new.raises = frozenset(ctx.raises)
        old = ctx.summary
        merged = Summary()
        if self.A.iteration < self.A.widen_after:
            # plain chaotic iteration from bottom: the transfer functions are monotone in the callee
            # summaries, so results only grow; no accumulation of early (partial) approximations
            merged.ret = new.ret.trunc() if new.ret is not None else None
            merged.heap = dict(new.heap)
            merged.effects = new.effects
            merged.raises = new.raises
        else:
            merged.ret = join(old.ret, new.ret)
            if merged.ret is not None:
                merged.ret = merged.ret.trunc()
            merged.heap = dict(old.heap)
            for k, v in new.heap.items():
                merged.heap[k] = join(merged.heap.get(k), v)
            merged.effects = old.effects | new.effects
            merged.raises = old.raises | new.raises
        if not merged.same(old):
            self.A.changed = True
            merged.version = old.version + 1
        else:
            merged.version = old.version
        ctx.summary = merged

    def gc(self, st: State):
        """drop heap entries of fresh objects that nothing designates any more"""
        roots = []
        for v in st.env.values():
            roots.extend(v.all_pts())
        if self.ret is not None:
            roots.extend(self.ret.all_pts())
        byobj: Dict[tuple, list] = {}
        for (o, f), v in st.heap.items():
            byobj.setdefault(o, []).append(v)
            if o[0] != "N":
                roots.append(o)
        seen = set()
        todo = roots
        while todo:
            o = todo.pop()
            if o in seen:
                continue
            seen.add(o)
            b = o
            while b[0] in ("F", "E"):
                b = b[1]
                if b not in seen:
                    todo.append(b)
            for v in byobj.get(o, ()):
                todo.extend(v.all_pts())
        for k in [k for k in st.heap if k[0][0] == "N" and k[0] not in seen]:
            del st.heap[k]

    def reachable_objs(self, ret: Optional[Val], heap) -> set:
        seen = set()
        todo = list(ret.all_pts()) if ret is not None else []
        byobj: Dict[tuple, list] = {}
        for (o, f), v in heap.items():
            byobj.setdefault(o, []).append(v)
        for (o, f) in heap:
            if root_of(o) is not None:
                todo.append(o)
        while todo:
            o = todo.pop()
            if o in seen:
                continue
            seen.add(o)
            for v in byobj.get(o, ()):
                todo.extend(v.all_pts())
        return seen

    # ------------------------------------------------------------------ exceptions (E6)
    def may_raise(self, *types, node=None):
        for t in types:
            self.nraise.add((t, self.loc(node if node is not None else (self.cur.ast if self.cur is not None else self.fi.node))))

    @staticmethod
    def _exc_sub(a: str, b: str) -> bool:
        from .index import BUILTIN_EXC, exc_is_sub

        if a == "*" or b in ("BaseException",):
            return True
        if a not in BUILTIN_EXC:
            return b in ("Exception", a)
        return exc_is_sub(a, b)

    def handler_matches(self, h: ast.ExceptHandler) -> bool:
        from .cfg import handler_types

        hts = handler_types(h)
        for t, _ in self.nraise:
            if t == "*":
                return True
            for ht in hts:
                if self._exc_sub(t, ht) or self._exc_sub(ht, t):
                    return True
        return False

    def escape(self, node):
        """exception types raised at this node that no enclosing handler catches"""
        tries = node.handlers or []
        for t, loc in self.nraise:
            caught = False
            for tr in tries:
                for hts in tr:
                    if any((t != "*" and self._exc_sub(t, ht)) or ht in ("BaseException", "Exception") for ht in hts):
                        caught = True
                        break
                if caught:
                    break
            if not caught:
                self.ctx.raises.add((t, loc))

    # ------------------------------------------------------------------ misc helpers
    def site(self, node: ast.AST, tag: str = "") -> tuple:
        return (self.fi.qual, getattr(node, "lineno", 0), getattr(node, "col_offset", 0), tag)

    def loc(self, node: ast.AST) -> str:
        return f"{self.fi.module}.py:{getattr(node, 'lineno', 0)}"

    def fresh(self, node: ast.AST, ty, tag="", **kw) -> Val:
        if not tag:
            tag = sorted(ty)[0] if ty else "x"
        return Val(ty=ty, pts={("N", self.site(node, tag))}, **kw)

    def rec(self, node: ast.AST, v: Val) -> Val:
        self.ctx.vals[nk(node)] = v
        return v

    def rec_call(self, node, callees, args, kind, recv=None, ret=None):
        self.ctx.calls_map[(nk(node), kind)] = CallRec(node, self.cur.id if self.cur else -1, callees, args, kind, recv, ret)

    def initial_field(self, key) -> Optional[Val]:
        obj, f = key
        if obj[0] == "N":
            return None
        return self.symbolic_field(obj, f)

    def symbolic_field(self, obj, f: str) -> Val:
        r = root_of(obj)
        if obj[0] == "P":
            src = frozenset({("PF", obj[1], f)})
        elif r is not None:
            src = frozenset({top_src(obj)})
        elif obj[0] == "G":
            src = frozenset({("G", obj[1])})
        else:
            src = EMPTY
        t = self.A.ftab_get(f)
        fobj = ("F", obj, f)
        if t is None:
            return Val(ty={"?"}, pts={fobj}, dep=src, mdep=src)

        def role_kind(k):
            # fields of objects we did not create hold user data or library integers
            if not k:
                return k
            if k <= {"I", "N"}:
                return k
            base = set(k) - {"F", "U"}
            if k & {"F", "U", "Z", "Q"}:
                base |= set(EXACT_K) if self.A.exact else {"Z", "Q", "F"}
            return frozenset(base)

        def build(tv: Val, o, d=0) -> Val:
            e = tv.iter_join()
            immut = tv.ty and tv.ty <= {"int", "float", "number", "bool", "str", "None"}
            return Val(
                ty=tv.ty,
                pts=EMPTY if immut else {o},
                dep=src,
                mdep=src,
                kind=role_kind(tv.kind),
                elem=None if e is None or d >= 2 else build(e, ("E", o), d + 1),
            )

        return build(t, fobj)

    def _grp_push(self):
        self.alts.append([0, 0])

    def _grp_pop(self, res: Optional[Val] = None, other: bool = False):
        """end of a dispatch over alternative callees: dead iff every alternative is bottom and nothing
        else (a builtin meaning of the construct) produced a value"""
        n, b = self.alts.pop()
        if n > 0 and b == n and not other and (res is None or (not res.ty and not res.pts)):
            self.dead = True

    def recv_for(self, v: Val, c: str) -> Val:
        """the part of v that may be an instance of repository class c (receiver of a dispatched call)"""
        def ok(o):
            if o[0] != "N":
                return True
            tag = o[1][3] if isinstance(o[1], tuple) and len(o[1]) > 3 else ""
            tag = str(tag).split("#")[0].split("~")[0]
            if isinstance(tag, str) and tag.startswith("obj:"):
                x = tag[4:]
                return x not in self.prog.classes or self.prog.is_subclass(x, c) or self.prog.is_subclass(c, x)
            return tag in ("new", "copy", "x", "?", "ucall", "umeth") or str(tag).startswith(("inst:", "fld:"))
        tys = {t for t in v.ty if t.startswith("inst:") and (self.prog.is_subclass(t[5:], c) or self.prog.is_subclass(c, t[5:]))}
        if not tys:
            tys = {"inst:" + c}
        keep_elem = c in ("ImmutableKnotVector", "KnotVector")
        return v.with_(ty=tys, pts=frozenset(o for o in v.pts if ok(o)), items=None, dmap=None, const=None, elem=v.elem if keep_elem else None)

    @staticmethod
    def _base(o):
        while o[0] in ("F", "E"):
            o = o[1]
        return o

    def pc_apply(self, v: Val, st: State) -> Val:
        if not st.pc:
            return v
        d, m = st.pc_dep()
        return v.add_dep(d, m)

    # ------------------------------------------------------------------ effects
    def mutate(self, objs, node: ast.AST, what: str, field: Optional[str] = None):
        for o in objs:
            if root_of(o) is None and self._base(o)[0] != "G":
                continue
            eff = ("W" if field else "M", o, field, self.loc(node), what)
            self.ctx.effects.add(eff)
            if self.cur is not None:
                self.ctx.node_effects.setdefault(self.cur.id, set()).add(eff)

    # ------------------------------------------------------------------ heap
    def read_field(self, base: Val, f: str, st: State, node=None) -> Val:
        out = None
        for o in base.pts:
            v = st.heap.get((o, f))
            if v is None:
                if o[0] == "N":
                    t = self.A.ftab_get(f)
                    v = Val(ty=t.ty if t else {"?"}, kind=t.kind if t else EMPTY, elem=t.elem if t else None) if t is not None else None
                    if v is None:
                        continue
                else:
                    v = self.symbolic_field(o, f)
            out = join(out, v)
        if out is None:
            t = self.A.ftab_get(f)
            if t is not None:
                out = t.with_(dep=base.dep, mdep=base.mdep)
                if t.ty - {"int", "float", "number", "bool", "str", "None"}:
                    out = out.with_(pts={("N", self.site(node, "fld:" + f))} if node is not None else EMPTY)
            else:
                out = Val(ty={"?"}, dep=base.dep, mdep=base.mdep)
        # the value read depends on which object the base designates
        extra_m = base.mdep if len(base.pts) > 1 else EMPTY
        extra_d = base.dep if len(base.pts) != 1 or any(o[0] not in ("P", "N") for o in base.pts) else EMPTY
        return out.add_dep(extra_d, extra_m)

    def write_field(self, base: Val, f: str, v: Val, st: State, node):
        v = self.pc_apply(v, st).trunc()
        self.A.ftab_add(f, v)
        objs = list(base.pts)
        strong = len(objs) == 1 and objs[0][0] in ("P", "N")
        for o in objs:
            if strong:
                st.heap[(o, f)] = v
            else:
                old = st.heap.get((o, f))
                if old is None:
                    old = self.initial_field((o, f))
                st.heap[(o, f)] = join(old, v)
        self.mutate(objs, node, f"store .{f}", field=f)

    # ------------------------------------------------------------------ statements
    def transfer(self, node, s_in: State) -> Dict[str, Optional[State]]:
        self.cur = node
        st = s_in.copy()
        a = node.ast
        outs: Dict[str, Optional[State]] = {}
        exc = s_in  # state on exceptional edge (refined below)
        if node.kind == "entry":
            return {"n": st}
        if node.kind == "handler":
            if a.name:
                st.env[a.name] = Val(ty={"exc"})
            return {"n": st}
        if node.kind == "test":
            cv = self.ev(a, st)
            tr = self.truth(a, st)
            is_raise_guard = any(s not in self.normal_live for s in self.cfg.succs(node.id, exc=False))
            for lab, pol in (("t", True), ("f", False)):
                if pol not in tr:
                    outs[lab] = None
                    continue
                s2 = self.narrow(a, st.copy(), pol)
                if s2 is not None and not is_raise_guard:
                    vd, md = self.cond_deps(a, cv, st)
                    s2.pc[node.id] = (pol, vd, md)
                outs[lab] = s2
            outs["exc"] = self.exc_state(s_in, st)
            return outs
        if node.kind == "for":
            it = self.ev(a.iter, st)
            el = self.iter_elem(it, st, a.iter)
            body = st.copy()
            self.assign(a.target, el.add_dep(it.dep, it.mdep), body, a)
            body.pc[node.id] = (True, it.dep, EMPTY)
            outs["t"] = body
            outs["f"] = st
            outs["exc"] = self.exc_state(s_in, st)
            return outs
        # plain statements
        if isinstance(a, ast.Assign):
            v = self.ev(a.value, st)
            for t in a.targets:
                self.assign(t, v, st, a)
        elif isinstance(a, ast.AnnAssign):
            if a.value is not None:
                self.assign(a.target, self.ev(a.value, st), st, a)
        elif isinstance(a, ast.AugAssign):
            self.augassign(a, st)
        elif isinstance(a, ast.Expr) and isinstance(a.value, ast.Call) and isinstance(a.value.func, ast.Name) and a.value.func.id == "iter" and len(a.value.args) == 1 and isinstance(a.value.args[0], ast.Name) and a.value.args[0].id in st.env:
            # `iter(x)` used as an is-iterable probe: on the exceptional edge x is not iterable
            self.ev(a.value, st)
            nm = a.value.args[0].id
            v = st.env[nm]
            scal = v.ty & {"number", "int", "float", "bool", "None", "?", "callable"}
            ex = self.exc_state(s_in, st)
            if scal:
                ex.env[nm] = v.with_(ty=scal, elem=None, items=None, pts=EMPTY if not ("?" in scal) else v.pts, kind=(v.kind - {"N"}) or v.kind)
            outs["n"] = st
            outs["exc"] = ex if scal else None
            return outs
        elif isinstance(a, ast.Expr):
            if isinstance(a.value, (ast.Yield, ast.YieldFrom)):
                yv = self.ev(a.value.value, st) if a.value.value is not None else NONE
                self.yields = join(self.yields, yv)
            else:
                self.ev(a.value, st)
        elif isinstance(a, ast.Return):
            v = self.ev(a.value, st) if a.value is not None else NONE
            v = self.pc_apply(v, st)
            self.ctx.ret_sites[node.id] = v
            self.ctx.ret_states[node.id] = st
            self.ret = join(self.ret, v)
            outs["n"] = st
            outs["exc"] = self.exc_state(s_in, st)
            return outs
        elif isinstance(a, ast.Raise):
            if a.exc is not None:
                self.ev(a.exc, st)
            from .cfg import raised_type

            self.nraise = {x for x in self.nraise if False}  # building the exception object itself is not modelled as failing
            self.may_raise(raised_type(a) or "*", node=a)
            return {"exc": self.exc_state(s_in, st)}
        elif isinstance(a, ast.Assert):
            self.ev(a.test, st)
            tr = self.truth(a.test, st)
            if False in tr:
                self.may_raise("AssertionError", node=a)
            s2 = self.narrow(a.test, st, True) if True in tr else None
            return {"n": s2, "exc": self.exc_state(s_in, st)}
        elif isinstance(a, ast.With):
            for item in a.items:
                v = self.ev(item.context_expr, st)
                if item.optional_vars is not None:
                    self.assign(item.optional_vars, v, st, a)
        elif isinstance(a, ast.Delete):
            pass
        elif isinstance(a, (ast.FunctionDef, ast.ClassDef)):
            st.env[a.name] = UNKNOWN
        outs["n"] = st
        outs["exc"] = self.exc_state(s_in, st)
        return outs

    def exc_state(self, s_in: State, s_out: State) -> State:
        # an exception may be raised half-way: variables keep their old values, heap effects may have happened
        r = State(dict(s_in.env), dict(s_in.heap), dict(s_in.pc))
        for k, v in s_out.heap.items():
            old = r.heap.get(k)
            if old is None:
                old = self.initial_field(k)
            r.heap[k] = join(old, v) if old is not None else v
        return r

    def cond_deps(self, cond: ast.expr, cv: Val, st: State):
        """(value dependences, must dependences) contributed by a branch condition.
        Shape tests (isinstance / type / callable / `is None`) contribute no value dependence;
        `is None` tests still contribute to the must-dependence (presence flows)."""
        vd, md = set(), set()

        def walk(c):
            if isinstance(c, ast.BoolOp):
                for x in c.values:
                    walk(x)
                return
            if isinstance(c, ast.UnaryOp) and isinstance(c.op, ast.Not):
                walk(c.operand)
                return
            v = self.ctx.vals.get(nk(c))
            if v is None:
                return
            if isinstance(c, ast.Call) and isinstance(c.func, ast.Name) and c.func.id in ("isinstance", "callable", "issubclass"):
                return
            if isinstance(c, ast.Compare) and len(c.ops) == 1 and isinstance(c.ops[0], (ast.Is, ast.IsNot)):
                r = c.comparators[0]
                if isinstance(r, ast.Constant) and r.value is None:
                    md.update(v.mdep)
                    return
                if any(isinstance(x, ast.Call) and isinstance(x.func, ast.Name) and x.func.id == "type" for x in (c.left, r)):
                    return
            vd.update(v.dep)
            md.update(v.mdep)

        walk(cond)
        return frozenset(vd), frozenset(md)

    # ------------------------------------------------------------------ assignment
    def assign(self, tgt: ast.expr, v: Val, st: State, stmt):
        if isinstance(tgt, ast.Name):
            st.env[tgt.id] = self.pc_apply(v, st)
            self.rec(tgt, st.env[tgt.id])
        elif isinstance(tgt, (ast.Tuple, ast.List)):
            n = len(tgt.elts)
            if v.items is None or len(v.items) != n:
                self.may_raise("ValueError", "TypeError", node=tgt)
            for i, t in enumerate(tgt.elts):
                if isinstance(t, ast.Starred):
                    self.assign(t.value, Val(ty={"list"}, elem=self.iter_elem(v, st, tgt), dep=v.dep), st, stmt)
                    continue
                if v.items is not None and len(v.items) == n:
                    self.assign(t, v.items[i].add_dep(v.dep, v.mdep), st, stmt)
                else:
                    self.assign(t, self.iter_elem(v, st, tgt), st, stmt)
        elif isinstance(tgt, ast.Attribute):
            base = self.ev(tgt.value, st)
            self.store_attr(base, tgt.attr, v, st, tgt)
        elif isinstance(tgt, ast.Subscript):
            base = self.ev(tgt.value, st)
            idx = self.ev(tgt.slice, st)
            self.store_subscript(base, idx, v, st, tgt)
            # m[i][j] = v also changes what the outer container holds
            root = tgt.value
            while isinstance(root, ast.Subscript):
                root = root.value
            if root is not tgt.value:
                rv = self.ev(root, st)
                self.mutate(rv.pts, tgt, "subscript store")
                self.update_elem(rv, v.add_dep(idx.dep, EMPTY), st)
        elif isinstance(tgt, ast.Starred):
            self.assign(tgt.value, v, st, stmt)

    def store_attr(self, base: Val, attr: str, v: Val, st: State, node):
        handled = False
        self._grp_push()
        for c in base.insts():
            setters = self.prog.lookup(c, attr, "setter")
            if setters:
                handled = True
                args = []
                for s in setters:
                    r, bound = self.call_func(s, [self.recv_for(base, c), v], {}, st, node, "setter", record=False)
                    args.append(bound)
                self.rec_call(node, setters, args, "setter", recv=base)
            elif self.prog.lookup(c, attr, "getter"):
                handled = True  # read-only property: AttributeError at run time
        self._grp_pop(None, other=not handled)
        if not handled:
            f = mangle(self.fi.clsname, attr)
            if base.pts:
                self.write_field(base, f, v, st, node)
            else:
                self.A.ftab_add(f, v)

    def store_subscript(self, base: Val, idx: Val, v: Val, st: State, node):
        handled = False
        for c in base.insts():
            ms = self.prog.lookup(c, "__setitem__")
            if ms:
                handled = True
                for m in ms:
                    self.call_func(m, [self.recv_for(base, c), idx, v], {}, st, node, "call")
        if handled:
            return
        self.mutate(base.pts, node, "subscript store")
        for o in base.pts:
            if o[0] == "G":
                # module-level table: remember what is stored there (read back by class_attr)
                self.A.ftab_add("$G:" + str(o[1]), v)
        # weak update of the element abstraction of every variable designating the container
        if "slice" in idx.ty and not (base.ty & {"ndarray"}):
            # lst[a:b] = seq stores the elements of seq
            v = self.iter_elem_simple(v).add_dep(v.dep, EMPTY)
        self.update_elem(base, v.add_dep(idx.dep, EMPTY), st)

    def update_elem(self, base: Val, v: Val, st: State):
        if isinstance(v.ty, frozenset) and ("tuple" in v.ty or "list" in v.ty or "ndarray" in v.ty) and base.ty & {"ndarray"} and v.elem is not None and "slice" not in v.ty:
            pass
        tgt = base.pts
        if not tgt:
            return
        for name, old in list(st.env.items()):
            if old.pts & tgt:
                st.env[name] = self._with_elem(old, v)
        for k, old in list(st.heap.items()):
            if old.pts & tgt:
                st.heap[k] = self._with_elem(old, v)

    def taint_container(self, base: Val, dep, st: State):
        """a mutating method call makes the container depend on the call's arguments"""
        tgt = base.pts
        if not tgt or not dep:
            return
        for name, old in list(st.env.items()):
            if old.pts & tgt:
                st.env[name] = old.add_dep(dep, EMPTY)
        for k, old in list(st.heap.items()):
            if old.pts & tgt:
                st.heap[k] = old.add_dep(dep, EMPTY)

    def _with_elem(self, c: Val, v: Val) -> Val:
        # storing a sequence into a slice / row of an array stores its elements
        e = v
        if c.ty & {"ndarray"} and v.elem is not None and (v.ty & {"tuple", "list", "ndarray"}):
            e = join(v, v.elem) if c.elem is not None and (c.elem.ty & {"ndarray", "list", "tuple"}) else v.elem.add_dep(v.dep, v.mdep)
        if c.items is not None:
            return c.with_(items=None, elem=join(c.iter_join(), e)).trunc()
        return c.with_(elem=join(c.elem, e)).trunc()

    def augassign(self, a: ast.AugAssign, st: State):
        tgt = a.target
        rv = self.ev(a.value, st)
        if isinstance(tgt, ast.Name):
            lv = st.env.get(tgt.id)
            if lv is None:
                lv = self.ev_name(tgt, st)
            self.rec(tgt, lv)
            res = self.inplace_op(a.op, lv, rv, st, a)
            st.env[tgt.id] = self.pc_apply(res, st)
        elif isinstance(tgt, ast.Attribute):
            base = self.ev(tgt.value, st)
            lv = self.load_attr(base, tgt.attr, st, tgt)
            res = self.inplace_op(a.op, lv, rv, st, a)
            self.store_attr(base, tgt.attr, res, st, tgt)
        elif isinstance(tgt, ast.Subscript):
            base = self.ev(tgt.value, st)
            idx = self.ev(tgt.slice, st)
            lv = self.subscript(base, idx, st, tgt)
            self.rec(tgt, lv)
            res = self.inplace_op(a.op, lv, rv, st, a, elem_of=base)
            self.store_subscript(base, idx, res, st, tgt)

    def inplace_op(self, op, lv: Val, rv: Val, st: State, node, elem_of: Optional[Val] = None) -> Val:
        """x op= y : in-place dunder of repo classes, in-place mutation of mutable builtins /
        unknown objects, rebinding for immutable values."""
        results = []
        dun = INPLACE.get(type(op))
        handled_inst = False
        callees, argl = [], []
        self._grp_push()
        for c in lv.insts():
            ms = self.prog.lookup(c, dun) if dun else []
            if ms:
                handled_inst = True
                for m in ms:
                    r, bound = self.call_func(m, [self.recv_for(lv, c), rv], {}, st, node, "augop", record=False)
                    callees.append(m)
                    argl.append(bound)
                    results.append(r)
        if callees:
            self.rec_call(node, callees, argl, "augop", recv=lv)
        non_inst = lv.ty - {t for t in lv.ty if t.startswith("inst:")}
        self._grp_pop(joinall(results) if results else None, other=bool(non_inst) or not handled_inst)
        if handled_inst and not non_inst:
            return joinall(results) or Val()
        res = self.binop(op, lv, rv, st, node, aug=True)
        if lv.ty & MUTABLE_TY or "?" in lv.ty or (not lv.ty and lv.pts):
            # in-place on the object itself; numbers inside an ndarray are not objects of their own
            if elem_of is not None and elem_of.ty and elem_of.ty <= {"ndarray"} and not (lv.ty & {"list", "set", "dict"}):
                pass
            else:
                self.mutate(lv.pts, node, "in-place " + type(op).__name__)
            res = res.with_(pts=res.pts | lv.pts, ty=res.ty | (lv.ty & (MUTABLE_TY | {"?"})))
            if lv.elem is not None or rv.elem is not None:
                res = res.with_(elem=join(res.elem, join(lv.elem, rv.iter_join() if isinstance(op, (ast.Add, ast.BitOr)) else None)))
        results.append(res)
        return joinall(results)

    # ------------------------------------------------------------------ expressions
    def ev(self, e: ast.expr, st: State) -> Val:
        v = self._ev(e, st)
        if v is None:
            v = UNKNOWN
        self.ctx.vals[nk(e)] = v
        return v

    def _ev(self, e: ast.expr, st: State) -> Val:
        if isinstance(e, ast.Constant):
            c = e.value
            if c is None:
                return NONE
            if isinstance(c, bool):
                return mk_bool({c})
            if isinstance(c, int):
                return mk_int({c})
            if isinstance(c, float):
                return Val(ty={"float"}, kind={"F"}, fsrc={f"{self.loc(e)}: float literal {c!r}"}, const={c})
            if isinstance(c, str):
                return mk_str({c})
            return UNKNOWN
        if isinstance(e, ast.Name):
            return self.ev_name(e, st)
        if isinstance(e, ast.Attribute):
            base = self.ev(e.value, st)
            return self.load_attr(base, e.attr, st, e)
        if isinstance(e, ast.Call):
            return self.ev_call(e, st)
        if isinstance(e, ast.BinOp):
            l = self.ev(e.left, st)
            r = self.ev(e.right, st)
            return self.binop(e.op, l, r, st, e)
        if isinstance(e, ast.UnaryOp):
            v = self.ev(e.operand, st)
            if isinstance(e.op, ast.Not):
                return mk_bool().with_(dep=v.dep, mdep=v.mdep)
            if isinstance(e.op, ast.USub) and v.const is not None and len(v.const) == 1 and all(isinstance(c, (int, float)) and not isinstance(c, bool) for c in v.const):
                return v.with_(const={-c for c in v.const})
            res = None
            dn = {ast.USub: "__neg__", ast.UAdd: "__pos__", ast.Invert: "__invert__"}[type(e.op)]
            callees, argl = [], []
            self._grp_push()
            for c in v.insts():
                for m in self.prog.lookup(c, dn):
                    r, bound = self.call_func(m, [self.recv_for(v, c)], {}, st, e, "unop", record=False)
                    callees.append(m)
                    argl.append(bound)
                    res = join(res, r)
            self._grp_pop(res, other=bool(v.ty - {t for t in v.ty if t.startswith("inst:")}) or not callees)
            if callees:
                self.rec_call(e, callees, argl, "unop", recv=v)
            if res is None or (v.ty - {t for t in v.ty if t.startswith("inst:")}):
                res = join(res, self.arith_result([v], e, op=e.op))
            return res
        if isinstance(e, ast.BoolOp):
            vs = [self.ev(x, st) for x in e.values]
            r = joinall(vs)
            d = frozenset().union(*[x.dep for x in vs])
            return r.with_(dep=d, const=None if any(x.const is None for x in vs) else r.const)
        if isinstance(e, ast.Compare):
            return self.ev_compare(e, st)
        if isinstance(e, ast.IfExp):
            c = self.ev(e.test, st)
            tr = self.truth(e.test, st)
            res = None
            if True in tr:
                s2 = self.narrow(e.test, st.copy(), True)
                if s2 is not None:
                    s2.heap = st.heap
                    res = join(res, self.ev(e.body, s2))
            if False in tr:
                s2 = self.narrow(e.test, st.copy(), False)
                if s2 is not None:
                    s2.heap = st.heap
                    res = join(res, self.ev(e.orelse, s2))
            if res is None:
                res = UNKNOWN
            vd, md = self.cond_deps(e.test, c, st)
            return res.add_dep(vd, md)
        if isinstance(e, (ast.Tuple, ast.List)):
            items = []
            for x in e.elts:
                if isinstance(x, ast.Starred):
                    sv = self.ev(x.value, st)
                    items = None
                    el = self.iter_elem(sv, st, x)
                    rest = [self.ev(y, st) if not isinstance(y, ast.Starred) else self.iter_elem(self.ev(y.value, st), st, y) for y in e.elts]
                    ty = "tuple" if isinstance(e, ast.Tuple) else "list"
                    return self.fresh(e, {ty}, elem=joinall(rest + [el]), kind={"N"})
                items.append(self.ev(x, st))
            ty = "tuple" if isinstance(e, ast.Tuple) else "list"
            el = joinall(items)
            if ty == "tuple":
                const = None
                if items and all(i.const is not None and len(i.const) == 1 for i in items):
                    const = None
                return self.fresh(e, {ty}, items=tuple(items), elem=el, kind={"N"})
            return self.fresh(e, {ty}, elem=el, items=tuple(items) if len(items) <= 6 else None, kind={"N"})
        if isinstance(e, ast.Set):
            items = [self.ev(x, st) for x in e.elts]
            return self.fresh(e, {"set"}, elem=joinall(items), kind={"N"})
        if isinstance(e, ast.Dict):
            dm = []
            ok = True
            vals = []
            for k, v in zip(e.keys, e.values):
                vv = self.ev(v, st)
                vals.append(vv)
                if k is None:
                    ok = False
                    continue
                kv = self.ev(k, st)
                if kv.const is not None and len(kv.const) == 1:
                    dm.append((next(iter(kv.const)), vv))
                else:
                    ok = False
            return self.fresh(e, {"dict"}, elem=joinall(vals), dmap=tuple(dm) if ok else None, kind={"N"})
        if isinstance(e, (ast.ListComp, ast.GeneratorExp, ast.SetComp)):
            s2 = State(dict(st.env), st.heap, dict(st.pc))
            idep = self.comp_generators(e.generators, s2)
            el = self.ev(e.elt, s2).add_dep(idep, EMPTY)
            ty = {ast.ListComp: "list", ast.GeneratorExp: "iter", ast.SetComp: "set"}[type(e)]
            return self.fresh(e, {ty}, elem=el, dep=idep, kind={"N"})
        if isinstance(e, ast.DictComp):
            s2 = State(dict(st.env), st.heap, dict(st.pc))
            idep = self.comp_generators(e.generators, s2)
            self.ev(e.key, s2)
            el = self.ev(e.value, s2).add_dep(idep, EMPTY)
            return self.fresh(e, {"dict"}, elem=el, dep=idep, kind={"N"})
        if isinstance(e, ast.Subscript):
            base = self.ev(e.value, st)
            idx = self.ev(e.slice, st)
            return self.subscript(base, idx, st, e)
        if isinstance(e, ast.Slice):
            d = set()
            for x in (e.lower, e.upper, e.step):
                if x is not None:
                    d |= self.ev(x, st).dep
            return Val(ty={"slice"}, dep=d, kind={"N"})
        if isinstance(e, ast.Lambda):
            tag = f"lam:{self.fi.qual}:{e.lineno}:{e.col_offset}"
            self.A.lambdas[tag] = (e, self.fi)
            # the closure depends on what it captures: when the lambda is called somewhere else (a helper that receives it as a
            # parameter) the result depends on the callable parameter, and that dependence is substituted by these at the call site
            bound = {a.arg for a in e.args.args + e.args.kwonlyargs + e.args.posonlyargs}
            d, m = set(), set()
            for x in ast.walk(e.body):
                if isinstance(x, ast.Name) and isinstance(x.ctx, ast.Load) and x.id not in bound and x.id in st.env:
                    cv = st.env[x.id]
                    if cv is not None:
                        d |= cv.all_dep()
                        m |= cv.all_mdep()
            return Val(ty={tag}, kind={"N"}, dep=d, mdep=m)
        if isinstance(e, ast.JoinedStr):
            d = set()
            for x in e.values:
                if isinstance(x, ast.FormattedValue):
                    d |= self.ev(x.value, st).dep
            return mk_str().with_(dep=d)
        if isinstance(e, ast.FormattedValue):
            return mk_str().with_(dep=self.ev(e.value, st).dep)
        if isinstance(e, ast.Starred):
            return self.ev(e.value, st)
        if isinstance(e, ast.NamedExpr):
            v = self.ev(e.value, st)
            self.assign(e.target, v, st, e)
            return v
        if isinstance(e, (ast.Yield, ast.YieldFrom)):
            yv = self.ev(e.value, st) if e.value is not None else NONE
            self.yields = join(self.yields, yv)
            return UNKNOWN
        return UNKNOWN

    def comp_generators(self, gens, s2: State):
        idep = set()
        for g in gens:
            it = self.ev(g.iter, s2)
            el = self.iter_elem(it, s2, g.iter)
            idep |= it.dep
            self.assign(g.target, el.add_dep(it.dep, EMPTY), s2, g)
            for c in g.ifs:
                cv = self.ev(c, s2)
                idep |= cv.dep
                n = self.narrow(c, s2, True)
                if n is not None:
                    s2.env = n.env
        return frozenset(idep)

    def ev_name(self, e: ast.Name, st: State) -> Val:
        n = e.id
        if n in st.env:
            return st.env[n]
        mi = self.mod
        if n in mi.functions:
            return Val(ty={"func:" + mi.functions[n].qual}, kind={"N"})
        if n in mi.classes:
            return Val(ty={"cls:" + n}, const={"cls:" + n}, kind={"N"})
        if n in mi.imports:
            tgt = mi.imports[n]
            last = tgt.split(".")[-1]
            if tgt.startswith("compmec.nurbs"):
                if last in self.prog.modules and tgt.endswith("nurbs." + last) or tgt == "compmec.nurbs." + last and last in self.prog.modules:
                    return Val(ty={"mod:" + last}, kind={"N"})
                if last in self.prog.classes:
                    return Val(ty={"cls:" + last}, const={"cls:" + last}, kind={"N"})
                for m in self.prog.modules.values():
                    if last in m.functions and tgt.endswith(m.name + "." + last):
                        return Val(ty={"func:" + m.functions[last].qual}, kind={"N"})
            if tgt in ("numpy",):
                return Val(ty={"ext:np"}, kind={"N"})
            if tgt == "math":
                return Val(ty={"ext:math"}, kind={"N"})
            if tgt == "fractions.Fraction":
                return Val(ty={"cls:Fraction"}, const={"cls:Fraction"}, kind={"N"})
            if tgt in ("copy.copy", "copy.deepcopy"):
                return Val(ty={"builtin:" + last}, kind={"N"})
            if tgt == "copy":
                return Val(ty={"ext:copy"}, kind={"N"})
            return Val(ty={"ext:" + tgt}, kind={"N"})
        if n in BUILTIN_CLASSES:
            return Val(ty={"cls:" + n}, const={"cls:" + n}, kind={"N"})
        if n in EXC_NAMES:
            return Val(ty={"cls:exc"}, const={"cls:" + n}, kind={"N"})
        if n == "NotImplemented":
            return Val(ty={"const"}, kind={"N"})
        return Val(ty={"builtin:" + n}, kind={"N"})

    # ------------------------------------------------------------------ attributes
    def load_attr(self, base: Val, attr: str, st: State, node) -> Val:
        res = None
        handled = set()
        getters_called, argl = [], []
        self._grp_push()
        for t in base.ty:
            if t.startswith("inst:"):
                c = t[5:]
                if attr == "__class__":
                    subs = self.prog.all_subclasses(c)
                    # a base class that has subclasses stands for its concrete subclasses (BaseCurve is only
                    # ever instantiated as Curve, IndexableFunction / BaseFunction as Function)
                    cs = {"cls:" + x for x in subs if not self.prog.all_subclasses(x)} if subs else {"cls:" + c}
                    res = join(res, Val(ty=cs, const=cs, kind={"N"}))
                    continue
                gs = self.prog.lookup(c, attr, "getter")
                if gs:
                    for g in gs:
                        if g in getters_called:
                            continue
                        r, bound = self.call_func(g, [self.recv_for(base, c)], {}, st, node, "getter", record=False)
                        getters_called.append(g)
                        argl.append(bound)
                        res = join(res, r)
                    continue
                ms = self.prog.lookup(c, attr, "method")
                if ms:
                    for m in ms:
                        if m.kind == "static":
                            res = join(res, Val(ty={"func:" + m.qual}, kind={"N"}))
                        else:
                            res = join(res, Val(ty={"bfunc:" + m.qual}, items=(self.recv_for(base, c),), kind={"N"}))
                    continue
                ci = self.prog.classes.get(c)
                f = mangle(self.fi.clsname, attr)
                hit = None
                if ci is not None:
                    for k in self.prog.mro(c):
                        if f in k.attrs or mangle(k.name, attr) in k.attrs:
                            hit = (k, f if f in k.attrs else mangle(k.name, attr))
                            break
                if hit is not None and not any((o, f) in st.heap for o in base.pts):
                    res = join(res, self.class_attr(hit[0].name, hit[1], st, node))
                    continue
                res = join(res, self.read_field(self.recv_for(base, c), f, st, node))
            elif t.startswith("cls:"):
                c = t[4:]
                if c in self.prog.classes:
                    found = False
                    for k in self.prog.mro(c):
                        m = k.methods.get(attr)
                        if m is not None:
                            if m.kind in ("static", "new") or True:
                                res = join(res, Val(ty={"func:" + m.qual}, kind={"N"}))
                            found = True
                            break
                        f = mangle(self.fi.clsname if self.fi.clsname == k.name else k.name, attr)
                        if f in k.attrs:
                            res = join(res, self.class_attr(k.name, f, st, node))
                            found = True
                            break
                    if not found:
                        if attr == "__name__":
                            res = join(res, mk_str())
                        else:
                            res = join(res, Val(ty={"builtin:object." + attr}, kind={"N"}))
                else:
                    res = join(res, Val(ty={"ext:" + c + "." + attr}, kind={"N"}))
            elif t.startswith("mod:"):
                m = self.prog.modules[t[4:]]
                if attr in m.functions:
                    res = join(res, Val(ty={"func:" + m.functions[attr].qual}, kind={"N"}))
                elif attr in m.classes:
                    res = join(res, Val(ty={"cls:" + attr}, const={"cls:" + attr}, kind={"N"}))
                else:
                    res = join(res, UNKNOWN)
            elif t.startswith("ext:"):
                full = t[4:] + "." + attr
                if full in ("np.floating", "np.integer", "np.float64", "np.int64"):
                    res = join(res, Val(ty={"cls:" + full}, const={"cls:" + full}, kind={"N"}))
                elif full == "math.pi":
                    res = join(res, Val(ty={"float"}, kind={"F"}, fsrc={f"{self.loc(node)}: math.pi"}))
                else:
                    res = join(res, Val(ty={"ext:" + full}, kind={"N"}))
            elif t.startswith("super:"):
                c = t[6:]
                found = False
                for k in self.prog.mro(c)[1:]:
                    m = k.methods.get(attr)
                    if m is not None and not _is_abstract(m):
                        recv = st.env.get(self.fi.params[0]) if self.fi.params else None
                        res = join(res, Val(ty={"bfunc:" + m.qual}, items=(recv,), kind={"N"}) if recv is not None and m.kind != "new" else Val(ty={"func:" + m.qual}, kind={"N"}))
                        found = True
                        break
                if not found:
                    res = join(res, Val(ty={"builtin:super." + attr}, kind={"N"}))
            elif t in ("bfunc", "func"):
                pass
            else:
                handled.add(t)
        self._grp_pop(res, other=bool(handled))
        insts = base.insts()
        if len(insts) > 1 and isinstance(node, ast.Attribute) and isinstance(node.value, ast.Name) and node.value.id in st.env and not handled:
            has = [c for c in insts if self.prog.lookup(c, attr, "getter", down=False) or self.prog.lookup(c, attr, "method", down=False) or self.prog.lookup(c, attr, "setter", down=False)]
            if has and len(has) < len(insts) and not attr.startswith("_"):
                st.env[node.value.id] = base.with_(ty={"inst:" + c for c in has})
        if handled or res is None:
            res = join(res, self.builtin_attr(base, attr, st, node, handled))
        if getters_called:
            self.rec_call(node, getters_called, argl, "getter", recv=base, ret=res)
        return res

    def class_attr(self, cname: str, f: str, st: State, node) -> Val:
        """class-level attribute (memo tables, constants): a global object"""
        g = ("G", f"{cname}.{f}")
        ci = self.prog.classes[cname]
        key = (g, "$value")
        if key in st.heap:
            return st.heap[key]
        init = ci.attrs.get(f)
        src = frozenset({("G", f"{cname}.{f}")})
        if isinstance(init, ast.Dict):
            vals = []
            for v in init.values:
                vals.append(self.ev_static(v))
            el = joinall(vals)
            t = self.A.ftab_get("$G:" + g[1])
            if t is not None:
                el = join(el, t)
            return Val(ty={"dict"}, pts={g}, dep=src, mdep=src, elem=el, kind={"N"})
        if init is not None:
            v = self.ev_static(init)
            return v.with_(pts={g} if v.ty & MUTABLE_TY else EMPTY, dep=src, mdep=src)
        return Val(ty={"?"}, pts={g}, dep=src, mdep=src)

    def ev_static(self, e: ast.expr) -> Val:
        """evaluate a literal-ish expression without environment"""
        try:
            return self.ev(e, State())
        except Exception:
            return UNKNOWN

    def builtin_attr(self, base: Val, attr: str, st: State, node, tys) -> Val:
        d = dict(dep=base.dep, mdep=base.mdep)
        if attr in ("numerator", "denominator"):
            return Val(ty={"int"}, kind={"I"}, **d)
        if attr in ("shape",):
            return Val(ty={"tuple"}, elem=mk_int(), kind={"N"}, **d)
        if attr in ("size", "ndim"):
            return mk_int().with_(**d)
        if attr == "T":
            return base
        if attr in ("real", "imag"):
            return base
        if attr == "__class__":
            return Val(ty={"cls:?"}, kind={"N"}, **d)
        if attr == "__name__":
            return mk_str()
        unknown = ("?" in base.ty or not base.ty) and any(root_of(o) is not None for o in base.pts)
        if unknown:
            # class-hierarchy fallback (only for objects handed in from outside: a value created
            # by arithmetic / a user call is user data, never an instance of a repository class): any repository class with a property of that name
            res = None
            gl, argl = [], []
            for ci in self.prog.classes.values():
                if ci.module == "__classes__":
                    continue
                g = ci.getters.get(attr)
                if g is not None:
                    b2 = base.with_(ty={"inst:" + ci.name})
                    r, bound = self.call_func(g, [b2], {}, st, node, "getter", record=False)
                    gl.append(g)
                    argl.append(bound)
                    res = join(res, r)
            if gl:
                self.rec_call(node, gl, argl, "getter-cha", recv=base, ret=res)
                self.ctx.unresolved.append(f"{self.loc(node)}: .{attr} on unknown receiver (CHA)")
                # duck typing: the access succeeded, so the object is an instance of a class that has the property
                if isinstance(node, ast.Attribute) and isinstance(node.value, ast.Name) and node.value.id in st.env:
                    tops = {g.clsname for g in gl}
                    tops = {c for c in tops if not any(c != d and self.prog.is_subclass(c, d) for d in tops)}
                    st.env[node.value.id] = base.with_(ty=(base.ty - {"?"}) | {"inst:" + c for c in tops})
                return res
            ms = [ci.methods[attr] for ci in self.prog.classes.values() if ci.module != "__classes__" and attr in ci.methods and ci.methods[attr].kind == "method"]
            if ms:
                self.ctx.unresolved.append(f"{self.loc(node)}: .{attr}() on unknown receiver (CHA)")
                return Val(ty={"bfunc:" + m.qual for m in ms} | {"umeth:" + attr}, items=(base,), kind={"N"})
        known = {"int", "float", "number", "bool", "None", "str"}
        if tys and set(tys) <= known and attr not in ("is_integer", "bit_length", "conjugate", "limit_denominator", "as_integer_ratio", "join", "format", "strip", "split", "lower", "upper", "replace", "startswith", "endswith", "lstrip", "rstrip", "find", "index", "count", "__class__"):
            return Val()  # AttributeError at run time: contributes nothing
        return Val(ty={"umeth:" + attr}, items=(base.with_(ty=frozenset(tys) or base.ty),), kind={"N"}, **d)

    # ------------------------------------------------------------------ calls
    def ev_call(self, e: ast.Call, st: State) -> Val:
        fv = self.ev(e.func, st)
        pos: List[Val] = []
        star: List[bool] = []
        for a in e.args:
            if isinstance(a, ast.Starred):
                pos.append(self.ev(a.value, st))
                self.ctx.vals[nk(a)] = pos[-1]
                star.append(True)
            else:
                pos.append(self.ev(a, st))
                star.append(False)
        kw: Dict[str, Val] = {}
        for k in e.keywords:
            v = self.ev(k.value, st)
            if k.arg is not None:
                kw[k.arg] = v
        return self.call_value(fv, pos, kw, st, e, star)

    def call_value(self, fv: Val, pos: List[Val], kw: Dict[str, Val], st: State, node, star=None) -> Val:
        res = None
        callees, argl = [], []
        recvs = None
        star = star or [False] * len(pos)
        self._grp_push()
        n_other = 0
        # instances of repository classes that define __call__ (BaseCurve, BaseFunction, FunctionEvaluator)
        callable_inst = {t for t in fv.ty if t.startswith("inst:") and t[5:] in self.prog.classes and self.prog.lookup(t[5:], "__call__")}
        if callable_inst:
            bm = self.load_attr(fv.with_(ty=callable_inst), "__call__", st, node)
            res = join(res, self.call_value(bm, pos, kw, st, node, star))
        for t in sorted(fv.ty - callable_inst):
            if not t.startswith(("func:", "bfunc:", "cls:")) and t not in ("None", "int", "float", "number", "bool", "str", "tuple", "list", "set", "dict", "ndarray", "slice", "exc", "const", "range", "iter"):
                n_other += 1
            if t.startswith("func:"):
                fi = self.prog.funcs.get(t[5:])
                if fi is None:
                    continue
                r, bound = self.call_func(fi, pos, kw, st, node, "call", record=False, star=star)
                callees.append(fi)
                argl.append(bound)
                res = join(res, r)
            elif t.startswith("bfunc:"):
                fi = self.prog.funcs.get(t[6:])
                if fi is None:
                    continue
                recv = fv.items[0] if fv.items else UNKNOWN
                if recv is None:
                    recv = UNKNOWN
                recvs = recv
                r, bound = self.call_func(fi, [recv] + pos, kw, st, node, "call", record=False, star=[False] + star)
                callees.append(fi)
                argl.append(bound)
                res = join(res, r)
            elif t.startswith("cls:"):
                res = join(res, self.construct(t[4:], pos, kw, st, node, callees, argl, star))
            elif t.startswith("builtin:"):
                res = join(res, self.builtin_call(t[8:], pos, kw, st, node))
            elif t.startswith("ext:"):
                res = join(res, self.ext_call(t[4:], pos, kw, st, node))
            elif t.startswith("umeth:"):
                recv = fv.items[0] if fv.items else UNKNOWN
                res = join(res, self.method_call(recv, t[6:], pos, kw, st, node))
            elif t.startswith("lam:"):
                lam, lfi = self.A.lambdas[t]
                s2 = State(dict(st.env), st.heap, dict(st.pc))
                if lfi.qual != self.fi.qual:
                    # called outside its defining function: its free variables are not the locals of this function
                    lbound = {a.arg for a in lam.args.args + lam.args.kwonlyargs + lam.args.posonlyargs}
                    for x in ast.walk(lam.body):
                        if isinstance(x, ast.Name) and x.id not in lbound:
                            s2.env.pop(x.id, None)
                for p, a in zip([x.arg for x in lam.args.args], pos):
                    s2.env[p] = a
                res = join(res, self.ev(lam.body, s2))
            elif t in ("None", "int", "float", "number", "bool", "str", "tuple", "list", "set", "dict", "ndarray", "slice", "exc", "const", "range", "iter"):
                continue
            else:
                # unknown callable (user function): result is user data
                self.may_raise("*", node=node)
                d = fv.dep.union(*[p.dep for p in pos]) if pos else fv.dep
                m = fv.mdep.union(*[p.mdep for p in pos]) if pos else fv.mdep
                res = join(res, Val(ty={"?"}, pts={("N", self.site(node, "ucall"))}, dep=d, mdep=m, kind=self.A.user_number().kind))
        self._grp_pop(res, other=n_other > 0)
        if callees:
            self.rec_call(node, callees, argl, "call", recv=recvs, ret=res)
            self.A.stats["calls_resolved"] += 1
        if res is not None and (fv.dep or fv.mdep):
            res = res.add_dep(fv.dep, fv.mdep)  # which function was called depends on the callee expression
        return res if res is not None else UNKNOWN

    def bind_args(self, fi: FuncInfo, pos: List[Val], kw: Dict[str, Val], star=None) -> List[Optional[Val]]:
        params = fi.params
        out: List[Optional[Val]] = [None] * len(params)
        star = star or [False] * len(pos)
        i = 0
        extra = []
        for a, s in zip(pos, star):
            if s:
                el = self.iter_elem_simple(a)
                if a.items is not None:
                    for it in a.items:
                        if i < len(params):
                            out[i] = it
                            i += 1
                        else:
                            extra.append(it)
                else:
                    while i < len(params) and params[i] not in kw and (params[i] not in fi.defaults):
                        out[i] = el
                        i += 1
                    extra.append(el)
            else:
                if i < len(params):
                    out[i] = a
                    i += 1
                else:
                    extra.append(a)
        for k, v in kw.items():
            if k in params:
                out[params.index(k)] = v
        for j, p in enumerate(params):
            if out[j] is None:
                if p in fi.defaults:
                    out[j] = self.ev_default(fi, fi.defaults[p])
                else:
                    out[j] = UNKNOWN
        if getattr(fi, "vararg", None):
            out.append(Val(ty={"tuple"}, elem=joinall(extra) if extra else None, items=tuple(extra) if extra and len(extra) <= 4 and not any(star) else None, dep=frozenset().union(*[x.dep for x in extra]) if extra else EMPTY, kind={"N"}))
        return out

    def ev_default(self, fi: FuncInfo, d: ast.expr) -> Val:
        if isinstance(d, ast.Constant):
            v = self._ev(d, State())
            return v
        if isinstance(d, ast.Name):
            if d.id in BUILTIN_CLASSES:
                return Val(ty={"cls:" + d.id}, const={"cls:" + d.id}, kind={"N"})
            mi = self.prog.modules[fi.module]
            if mi.imports.get(d.id) == "fractions.Fraction":
                return Val(ty={"cls:Fraction"}, const={"cls:Fraction"}, kind={"N"})
        return UNKNOWN

    def call_func(self, fi: FuncInfo, pos, kw, st: State, node, kind, record=True, star=None):
        args = self.bind_args(fi, pos, kw, star)
        ctx, summ = self.A.analyze(fi, args)
        self.ctx.callee_seen[ctx.key] = (summ.version, ctx.param_ver)
        if summ.raises:
            self.nraise |= summ.raises
        ret = self.apply_summary(fi, summ, args, st, node)
        if self.A.exact and fi.qual == "heavy.number_type" and args and ret is not None:
            # recognised dispatch idiom (DESIGN §1): the class returned for a nest of numbers follows from
            # the kinds of its leaves; the interpreter derives exactly this for a scalar argument, the
            # recursion over containers is summarised here to avoid the imprecision of shared contexts
            ks = args[0].all_kinds() - {"N"}
            cs = set()
            if ks & {"I", "Z"}:
                cs |= {"cls:int", "cls:Fraction"}
            if ks & {"Q"}:
                cs |= {"cls:Fraction", "cls:int"} if ks & {"I", "Z"} else {"cls:Fraction"}
            if ks & {"F"}:
                cs.add("cls:float")
            if not ks or "U" in ks:
                self.A.stats["u_guards"] = self.A.stats.get("u_guards", 0) + 1
                cs |= {"cls:int", "cls:Fraction"} if not (ks & {"F"}) else set()
            if cs and ret.const is not None:
                cs &= set(ret.const) | cs
                ret = ret.with_(const=frozenset(cs), ty=frozenset(cs))
        names = list(fi.params) + ([fi.vararg] if getattr(fi, "vararg", None) else [])
        bound = dict(zip(names, args))
        if record:
            self.rec_call(node, [fi], [bound], kind, ret=ret)
        return ret, bound

    def apply_summary(self, fi: FuncInfo, summ: Summary, args: List[Val], st: State, node) -> Val:
        sub = _Subst(self, fi, args, st, node, summ)
        for kind, obj, field, loc, what in summ.effects:
            for o in sub.obj(obj):
                if root_of(o) is not None or self._base(o)[0] == "G":
                    eff = (kind, o, field, loc, what)
                    self.ctx.effects.add(eff)
                    if self.cur is not None:
                        self.ctx.node_effects.setdefault(self.cur.id, set()).add(eff)
        updates = []
        for (obj, f), v in summ.heap.items():
            tg = sub.obj(obj)
            if not tg:
                continue
            updates.append((tg, f, sub.val(v)))
        # bottom (summ.ret is None): the callee has no return yet (recursion in progress / it always
        # raises). The dispatching construct is dead only if *all* its alternatives are bottom (_grp_pop).
        if self.alts:
            self.alts[-1][0] += 1
            if summ.ret is None:
                self.alts[-1][1] += 1
        elif summ.ret is None:
            self.dead = True
        ret = sub.val(summ.ret) if summ.ret is not None else Val()
        strong: Dict[tuple, Val] = {}
        weak: Dict[tuple, Val] = {}
        for tg, f, nv in updates:
            nv = nv.trunc()
            if len(tg) == 1 and next(iter(tg))[0] in ("P", "N"):
                k = (next(iter(tg)), f)
                strong[k] = join(strong.get(k), nv)  # several callee objects may map to one caller object
            else:
                for o in tg:
                    weak[(o, f)] = join(weak.get((o, f)), nv)
        for k, nv in strong.items():
            if k in weak:
                weak[k] = join(weak[k], nv)
            else:
                st.heap[k] = nv
        for k, nv in weak.items():
            old = st.heap.get(k)
            if old is None:
                old = self.initial_field(k)
            st.heap[k] = join(old, nv) if old is not None else nv
        return self.pc_apply_ret(ret, st)

    def pc_apply_ret(self, v: Val, st: State) -> Val:
        return v

    def construct(self, cname: str, pos, kw, st: State, node, callees, argl, star=None) -> Val:
        star = star or [False] * len(pos)
        if cname not in self.prog.classes:
            return self.builtin_construct(cname, pos, kw, st, node)
        new = init = None
        for k in self.prog.mro(cname):
            if new is None and "__new__" in k.methods and not _is_abstract(k.methods["__new__"]):
                new = k.methods["__new__"]
            if init is None and "__init__" in k.methods and not _is_abstract(k.methods["__init__"]):
                init = k.methods["__init__"]
        clsv = Val(ty={"cls:" + cname}, const={"cls:" + cname}, kind={"N"})
        if new is not None:
            r, bound = self.call_func(new, [clsv] + pos, kw, st, node, "new", record=False, star=[False] + star)
            callees.append(new)
            argl.append(bound)
            obj = r
        else:
            obj = Val(ty={"inst:" + cname}, pts={("N", self.site(node, "obj:" + cname))}, kind={"N"})
            d = frozenset().union(*[p.dep for p in pos]) if pos else EMPTY
        if init is not None and obj is not None and obj.ty:
            r, bound = self.call_func(init, [obj] + pos, kw, st, node, "init", record=False, star=[False] + star)
            callees.append(init)
            argl.append(bound)
        return obj if obj is not None else UNKNOWN


class _Subst:
    """substitution of a callee summary into the caller's terms"""

    def __init__(self, fx: FuncInterp, fi: FuncInfo, args: List[Val], st: State, node, summ: Summary):
        self.fx, self.fi, self.args, self.st, self.node = fx, fi, args, st, node
        self.heap0 = dict(st.heap)  # values before the call
        self.ocache: Dict[tuple, frozenset] = {}
        self.dcache: Dict[tuple, frozenset] = {}
        self.byobj = None
        self.vcache: Dict[tuple, Val] = {}
        ns = set()
        for v in [summ.ret] + list(summ.heap.values()):
            if v is not None:
                ns |= {o for o in v.all_pts() if o[0] == "N"}
        ns |= {k[0] for k in summ.heap if k[0][0] == "N"}
        # caller objects: one per call site, allocation tag and rank (<= 3) among the callee's
        # objects of that tag — numerator / denominator of fraction() stay apart, growth stays bounded
        def base(o):
            return str(o[1][3]).split("#")[0].split("~")[0] if isinstance(o[1], tuple) and len(o[1]) > 3 else "x"

        bytag: Dict[str, list] = {}
        for o in sorted(ns, key=lambda o: (o[1][1:3] if isinstance(o[1], tuple) else (0, 0), repr(o))):
            bytag.setdefault(base(o), []).append(o)
        self.nmap = {}
        for tag, objs in bytag.items():
            for k, o in enumerate(objs):
                t2 = f"{tag}~{fi.name}"
                self.nmap[o] = ("N", fx.site(node, t2 if k == 0 else f"{t2}#{min(k, 2)}"))

    def obj(self, o) -> frozenset:
        r = self.ocache.get(o)
        if r is not None:
            return r
        k = o[0]
        if k == "P":
            r = self.args[o[1]].pts if o[1] < len(self.args) else EMPTY
        elif k == "N":
            r = frozenset({self.nmap.get(o, ("N", self.fx.site(self.node, "x")))})
        elif k == "G":
            r = frozenset({o})
        elif k == "F":
            out = set()
            for b in self.obj(o[1]):
                v = self.heap0.get((b, o[2]))
                if v is not None:
                    out |= v.pts
                elif b[0] != "N":
                    out.add(self._cap(("F", b, o[2])))
            r = frozenset(out)
        elif k == "E":
            out = set()
            if o[1][0] == "P" and o[1][1] < len(self.args):
                a = self.args[o[1][1]]
                e = a.iter_join()
                if e is not None and e.pts:
                    out |= e.pts
                elif e is None or "?" in e.ty or not e.ty:
                    out |= {self._cap(("E", b)) for b in a.pts}
            else:
                for b in self.obj(o[1]):
                    out.add(self._cap(("E", b)))
            r = frozenset(out)
        else:
            r = EMPTY
        self.ocache[o] = r
        return r

    @staticmethod
    def _cap(o):
        d, x = 0, o
        while x[0] in ("F", "E"):
            x = x[1]
            d += 1
        if d > 4:
            return ("E", x)
        return o

    def src(self, s, must: bool) -> frozenset:
        if s[0] == "P":
            if s[1] >= len(self.args):
                return EMPTY
            a = self.args[s[1]]
            return a.all_mdep() if must else a.all_dep()
        if s[0] == "PF":
            if s[1] >= len(self.args):
                return EMPTY
            a = self.args[s[1]]
            out = None
            for o in a.pts:
                v = self.heap0.get((o, s[2]))
                if v is not None:
                    d = self.deep(v, must)
                elif o[0] == "P":
                    d = frozenset({("PF", o[1], s[2])})
                elif root_of(o) is not None:
                    d = frozenset({top_src(o)})
                else:
                    d = a.mdep if must else a.dep
                if out is None:
                    out = set(d)
                elif must:
                    out &= d
                else:
                    out |= d
            if out is None:
                return a.mdep if must else a.dep
            if len(a.pts) > 1 or not must:
                out |= a.mdep if must else (a.dep if len(a.pts) != 1 or any(o[0] not in ("P", "N") for o in a.pts) else EMPTY)
            return frozenset(out)
        return frozenset({s})

    def deep(self, v: Val, must: bool) -> frozenset:
        """dependences of a value in the caller's heap including those of the objects it designates"""
        key = (v.key(), must)
        r = self.dcache.get(key)
        if r is not None:
            return r
        if self.byobj is None:
            self.byobj = {}
            for (o, f), hv in self.heap0.items():
                self.byobj.setdefault(o, []).append(hv)
        out = set(v.all_mdep() if must else v.all_dep())
        seen = set()
        todo = list(v.all_pts()) if (not must or len(v.all_pts()) == 1) else []
        while todo:
            o = todo.pop()
            if o in seen:
                continue
            seen.add(o)
            for hv in self.byobj.get(o, ()):
                out |= hv.all_mdep() if must else hv.all_dep()
                nx = hv.all_pts()
                if not must or len(nx) == 1:
                    todo.extend(nx)
        r = frozenset(out)
        self.dcache[key] = r
        return r

    def val(self, v: Val, d=0) -> Val:
        k = v.key()
        r = self.vcache.get(k)
        if r is not None:
            return r
        pts = set()
        for o in v.pts:
            pts |= self.obj(o)
        dep = set()
        for s in v.dep:
            dep |= self.src(s, False)
        mdep = set()
        for s in v.mdep:
            mdep |= self.src(s, True)
        fs = set()
        for f in v.fsrc:
            if isinstance(f, tuple) and f[0] == "param":
                if f[1] < len(self.args):
                    fs |= self.args[f[1]].all_fsrc()
            else:
                fs.add(f)
        const = v.const
        if const is not None and any(isinstance(c, tuple) for c in const):
            nc = set()
            for c in const:
                if isinstance(c, tuple) and c and c[0] == "sym":
                    a = self.args[c[1]] if c[1] < len(self.args) else None
                    if a is not None and len(c) == 3:
                        a = a.iter_join()
                    if a is None or a.const is None:
                        nc = None
                        break
                    nc |= a.const
                else:
                    nc.add(c)
            const = None if nc is None else frozenset(nc)
        r = Val(
            ty=v.ty,
            pts=pts,
            dep=dep,
            mdep=mdep,
            kind=v.kind,
            fsrc=fs,
            const=const,
            elem=None if v.elem is None else self.val(v.elem, d + 1),
            items=None if v.items is None else tuple(self.val(i, d + 1) for i in v.items),
            dmap=None if v.dmap is None else tuple((kk, self.val(vv, d + 1)) for kk, vv in v.dmap),
        )
        self.vcache[k] = r
        return r
